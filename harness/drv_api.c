/* Lifecycle monitors: C13 (invalid arguments / configurations), C14 (descriptor
 * registry, isolation), C16 (no leak / double free / use-after-free over
 * histories), C17 (failing backend operation).  History + model monitors with a
 * conservation ledger (plain flavour) or ASan/LSan (asan flavour) underneath. */
#include "lec.h"
#include "ledger.h"
#include "erasurecode_backend.h"
#include "erasurecode_helpers_ext.h"
#include <stdio.h>
#include <stdlib.h>
#include <string.h>
#include <limits.h>
#include <dlfcn.h>
#include <unistd.h>

#define PROP LEC_PROP
SLIST_HEAD(backend_list, ec_backend);
extern struct backend_list active_instances;
extern int next_backend_desc;
extern struct ec_backend_common backend_null, backend_flat_xor_hd, backend_isa_l_rs_vand,
       backend_liberasurecode_rs_vand, backend_isa_l_rs_cauchy, backend_shss, backend_jerasure_rs_vand, backend_jerasure_rs_cauchy, backend_libphazr;

static int isal_ok, shss_ok, jer_ok, phazr_ok;
#define IS_JER(be) ((be) == EC_BACKEND_JERASURE_RS_VAND || (be) == EC_BACKEND_JERASURE_RS_CAUCHY)

static int registry_len(void)
{
    int n = 0;
    for (struct ec_backend *b = active_instances.slh_first; b; b = b->link.sle_next) { n++; if (n > 100000) break; }
    return n;
}

static int registry_find(int desc)
{
    int n = 0;
    for (struct ec_backend *b = active_instances.slh_first; b; b = b->link.sle_next) { if (b->idesc == desc) return 1; if (++n > 100000) break; }
    return 0;
}

/* ---------------------------------------------------------------- quiescent-point conservation */
typedef struct { ledger_t l; } qp_t;
static void q_begin(qp_t *q) { ledger_get(&q->l); }
static void q_zero(qp_t *q, const char *prop, const char *what)
{
    if (!ledger_available()) return;
    ledger_t n; ledger_get(&n);
    mon_count("ledger_checks", 1);
    if (n.lib_blocks != q->l.lib_blocks)
        mon_viol(prop, "ledger-blocks", "%s: library-allocated live blocks changed by %+ld (bytes %+ld) across a call that must keep nothing", what, n.lib_blocks - q->l.lib_blocks, n.lib_bytes - q->l.lib_bytes);
    if (n.dl_open != q->l.dl_open)
        mon_viol(prop, "ledger-dlopen", "%s: dlopen/dlclose balance changed by %+ld", what, n.dl_open - q->l.dl_open);
    if (n.unknown_frees != q->l.unknown_frees)
        mon_viol(prop, "ledger-unknown-free", "%s: library freed %ld pointer(s) that were not live blocks", what, n.unknown_frees - q->l.unknown_frees);
}
/* expected delta in dlopen handles (create +1, destroy -1) */
static void q_delta(qp_t *q, const char *prop, const char *what, long dl_delta, int blocks_must_return)
{
    if (!ledger_available()) return;
    ledger_t n; ledger_get(&n);
    mon_count("ledger_checks", 1);
    if (n.dl_open - q->l.dl_open != dl_delta)
        mon_viol(prop, "ledger-dlopen", "%s: dlopen/dlclose balance changed by %+ld, expected %+ld", what, n.dl_open - q->l.dl_open, dl_delta);
    if (blocks_must_return && n.lib_blocks != q->l.lib_blocks)
        mon_viol(prop, "ledger-blocks", "%s: %+ld library blocks (%+ld bytes) still allocated", what, n.lib_blocks - q->l.lib_blocks, n.lib_bytes - q->l.lib_bytes);
    if (n.unknown_frees != q->l.unknown_frees)
        mon_viol(prop, "ledger-unknown-free", "%s: library freed %ld pointer(s) that were not live blocks", what, n.unknown_frees - q->l.unknown_frees);
}
/* ASan flavour: leak check at a quiescent point; a leak ends this process (restart after the case) */
static void q_leakcheck(const char *prop, const char *what)
{
    if (ledger_available()) return;
    mon_count("lsan_checks", 1);
    if (ledger_leakcheck()) {
        mon_viol(prop, "lsan-leak", "%s: LeakSanitizer found unreachable library allocations at a quiescent point", what);
        mon_restart();
    }
}

/* ---------------------------------------------------------------- small helpers */
typedef struct { cfg_t c; int desc; char ck[96]; stripe_t s; uint8_t *data; code_t cd; } live_t;

static int live_open(live_t *L, const cfg_t *c, uint64_t len, uint64_t seed)
{
    memset(L, 0, sizeof *L);
    L->c = *c; cfg_key(c, L->ck, sizeof L->ck); code_init(&L->cd, c);
    L->desc = lec_create(c);
    if (L->desc <= 0) return -1;
    rng_t r; rng_seed(&r, seed, len);
    L->data = malloc(len ? len : 1);
    rng_fill(&r, L->data, len);
    if (stripe_make(&L->s, L->desc, c, L->data, len) != 0) { liberasurecode_instance_destroy(L->desc); free(L->data); L->desc = -1; return -1; }
    return 0;
}
static void live_close(live_t *L)
{
    if (L->desc > 0) liberasurecode_instance_destroy(L->desc);
    stripe_free(&L->s); free(L->data); L->desc = -1;
}

/* round trip with one data fragment lost (if m allows): returns 0 ok, else violation already raised */
static int live_roundtrip(live_t *L, const char *prop, const char *what, int erase)
{
    int n = L->s.n, k = L->c.k;
    char *lst[64]; int cnt = 0;
    int can = cfg_tol(&L->c) >= 1 && L->c.be != EC_BACKEND_NULL;
    for (int i = 0; i < n; i++) { if (can && i == (erase % k)) continue; lst[cnt++] = (char *)L->s.frag[i]; }
    char *out = NULL; uint64_t ol = 0;
    int rc = liberasurecode_decode(L->desc, lst, cnt, L->s.flen, 0, &out, &ol);
    mon_count("roundtrips", 1);
    if (rc != 0) { mon_viol(prop, "roundtrip-failed", "%s: decode on live instance %s returned %d", what, L->ck, rc); return -1; }
    int ok = ol == L->s.len && (L->s.len == 0 || !memcmp(out, L->data, L->s.len));
    liberasurecode_decode_cleanup(L->desc, out);
    if (!ok) { mon_viol(prop, "roundtrip-wrong-bytes", "%s: live instance %s decoded wrong bytes", what, L->ck); return -1; }
    /* re-encode must still equal the kept stripe (tables/generator intact) */
    char **ed = NULL, **ep = NULL; uint64_t fl = 0;
    rc = liberasurecode_encode(L->desc, (char *)L->data, L->s.len, &ed, &ep, &fl);
    if (rc != 0) { mon_viol(prop, "re-encode-failed", "%s: encode on live instance %s returned %d", what, L->ck, rc); return -1; }
    int same = fl == L->s.flen;
    for (int i = 0; i < n && same; i++) same = !memcmp(i < k ? ed[i] : ep[i - k], L->s.frag[i], fl);
    liberasurecode_encode_cleanup(L->desc, ed, ep);
    if (!same) { mon_viol(prop, "re-encode-differs", "%s: live instance %s no longer encodes to the same fragments", what, L->ck); return -1; }
    return 0;
}

#define POISON ((void *)(uintptr_t)0xdead00000000beefULL)

/* ================================================================ C13 */
static const int dead_descs_fixed[] = { 0, -1, INT_MAX, INT_MIN, 999983 };

static void refuse(const char *prop, const char *api, int rc)
{
    mon_count("evaluations", 1); mon_count("refusals_checked", 1);
    if (rc >= 0) mon_viol(prop, "not-refused", "%s returned %d, the property requires a negative error code", api, rc);
}

static void c13_dead_descriptor(live_t *L, int d, const char *dn)
{
    qp_t q;
    int n = L->s.n;
    char *lst[64]; for (int i = 0; i < n; i++) lst[i] = (char *)L->s.frag[i];
#define CASE(name, ...) if (mon_case("%s|dead-desc=%s|%s", L->ck, dn, name)) { q_begin(&q); __VA_ARGS__; q_zero(&q, "C13", name); mon_distinct("nontrivial", mon_hash_str(name, mon_hash_str(dn, mon_hash_str(L->ck, 71)))); mon_end(); }
    CASE("instance_destroy", refuse("C13", "instance_destroy", liberasurecode_instance_destroy(d)));
    CASE("encode", { char **ed = POISON, **ep = POISON; uint64_t fl = 0x5a5a; refuse("C13", "encode", liberasurecode_encode(d, (char *)L->data, L->s.len, &ed, &ep, &fl)); });
    CASE("encode_cleanup", refuse("C13", "encode_cleanup", liberasurecode_encode_cleanup(d, NULL, NULL)));
    CASE("decode", { char *out = POISON; uint64_t ol = 7; refuse("C13", "decode", liberasurecode_decode(d, lst, n, L->s.flen, 0, &out, &ol)); });
    CASE("decode-force", { char *out = POISON; uint64_t ol = 7; refuse("C13", "decode", liberasurecode_decode(d, lst, n, L->s.flen, 1, &out, &ol)); });
    CASE("decode_cleanup", refuse("C13", "decode_cleanup", liberasurecode_decode_cleanup(d, NULL)));
    CASE("reconstruct_fragment", { char *o = malloc(L->s.flen); refuse("C13", "reconstruct_fragment", liberasurecode_reconstruct_fragment(d, lst + 1, n - 1, L->s.flen, 0, o)); free(o); });
    CASE("fragments_needed", { int R[2] = { 0, -1 }, X[1] = { -1 }, N[40]; refuse("C13", "fragments_needed", liberasurecode_fragments_needed(d, R, X, N)); });
    CASE("is_invalid_fragment", { int v = is_invalid_fragment(d, lst[0]); mon_count("evaluations", 1); if (v == 0) mon_viol("C13", "not-refused", "is_invalid_fragment on a dead descriptor reported the fragment valid"); });
    CASE("verify_stripe_metadata", refuse("C13", "verify_stripe_metadata", liberasurecode_verify_stripe_metadata(d, lst, n)));
    CASE("get_aligned_data_size", refuse("C13", "get_aligned_data_size", liberasurecode_get_aligned_data_size(d, 1000)));
    CASE("get_minimum_encode_size", refuse("C13", "get_minimum_encode_size", liberasurecode_get_minimum_encode_size(d)));
    CASE("get_fragment_size", refuse("C13", "get_fragment_size", liberasurecode_get_fragment_size(d, 1000)));
#undef CASE
}

/* a descriptor destroyed by ANOTHER thread than the one that used it last: refused there too */
#include <pthread.h>
#include <semaphore.h>
typedef struct { int d; sem_t used, destroyed; int before[3], after[6]; uint64_t len, flen; char **lst; int n; const uint8_t *data; } xthr_t;
static void *xthr_main(void *v)
{
    xthr_t *t = v;
    t->before[0] = liberasurecode_get_fragment_size(t->d, 1000); t->before[1] = liberasurecode_get_aligned_data_size(t->d, 1000); t->before[2] = liberasurecode_get_minimum_encode_size(t->d);
    sem_post(&t->used);
    sem_wait(&t->destroyed);
    t->after[0] = liberasurecode_get_fragment_size(t->d, 1000); t->after[1] = liberasurecode_get_aligned_data_size(t->d, 1000); t->after[2] = liberasurecode_get_minimum_encode_size(t->d);
    { char **ed = POISON, **ep = POISON; uint64_t fl = 0; t->after[3] = liberasurecode_encode(t->d, (char *)t->data, t->len, &ed, &ep, &fl); }
    { char *out = POISON; uint64_t ol = 0; t->after[4] = liberasurecode_decode(t->d, t->lst, t->n, t->flen, 0, &out, &ol); }
    t->after[5] = liberasurecode_instance_destroy(t->d);
    return NULL;
}
static void *xthr_destroy_only(void *v) { xthr_t *t = v; t->after[5] = liberasurecode_instance_destroy(t->d); return NULL; }
static void c13_dead_descriptor_other_thread(live_t *L)
{
    if (!mon_case("%s|dead-desc=destroyed-by-another-thread", L->ck)) return;
    qp_t q; q_begin(&q);
    cfg_t c = L->c; int d = lec_create(&c);
    if (d <= 0) { mon_viol("C13", "setup-failed", "create rc=%d", d); mon_end(); return; }
    char *lst[64]; for (int i = 0; i < L->s.n; i++) lst[i] = (char *)L->s.frag[i];
    xthr_t t; memset(&t, 0, sizeof t); t.d = d; t.len = L->s.len; t.flen = L->s.flen; t.lst = lst; t.n = L->s.n; t.data = L->data;
    sem_init(&t.used, 0, 0); sem_init(&t.destroyed, 0, 0);
    pthread_t th; pthread_create(&th, NULL, xthr_main, &t);
    sem_wait(&t.used);
    int drc = liberasurecode_instance_destroy(d);
    sem_post(&t.destroyed);
    pthread_join(th, NULL);
    mon_count("evaluations", 6); mon_count("dead_descriptor_calls_from_another_thread", 6);
    if (drc != 0) mon_viol("C13", "destroy-failed", "destroy from the second thread returned %d", drc);
    if (t.before[0] < 0 || t.before[1] < 0 || t.before[2] < 0) mon_viol("C13", "live-descriptor-refused", "size queries on a live descriptor from another thread: %d/%d/%d", t.before[0], t.before[1], t.before[2]);
    static const char *nm[] = { "get_fragment_size", "get_aligned_data_size", "get_minimum_encode_size", "encode", "decode", "instance_destroy" };
    for (int i = 0; i < 6; i++) if (t.after[i] >= 0) { mon_viol("C13", "not-refused", "%s on a descriptor that another thread has destroyed returned %d, the property requires a negative error code", nm[i], t.after[i]); break; }
    sem_destroy(&t.used); sem_destroy(&t.destroyed);
    q_zero(&q, "C13", "create, use on one thread, destroy on another, use again");
    mon_distinct("nontrivial", mon_hash_str(L->ck, 7171));
    mon_end();
}

static void c13_null_and_ranges(live_t *L)
{
    qp_t q;
    int n = L->s.n, k = L->c.k, desc = L->desc;
    char *lst[64]; for (int i = 0; i < n; i++) lst[i] = (char *)L->s.frag[i];
    char name[160];
#define BEGIN(fmt, ...) (snprintf(name, sizeof name, fmt, __VA_ARGS__), mon_case("%s|%s", L->ck, name))
#define FIN() do { q_zero(&q, "C13", name); mon_distinct("nontrivial", mon_hash_str(name, mon_hash_str(L->ck, 72))); mon_end(); } while (0)
    /* encode: every non-empty subset of {data, out_data, out_parity, fragment_len} NULL */
    for (int mask = 1; mask < 16; mask++) {
        if (BEGIN("encode|null-mask=%d", mask)) {
            q_begin(&q);
            char **ed = POISON, **ep = POISON; uint64_t fl = 0x5a5a;
            int rc = liberasurecode_encode(desc, (mask & 1) ? NULL : (char *)L->data, L->s.len, (mask & 2) ? NULL : &ed, (mask & 4) ? NULL : &ep, (mask & 8) ? NULL : &fl);
            refuse("C13", name, rc);
            FIN();
        }
    }
    /* decode: NULL subsets of {fragments, out_data, out_len}; counts; short lengths */
    for (int mask = 1; mask < 8; mask++) {
        if (BEGIN("decode|null-mask=%d", mask)) {
            q_begin(&q);
            char *out = POISON; uint64_t ol = 7;
            refuse("C13", name, liberasurecode_decode(desc, (mask & 1) ? NULL : lst, n, L->s.flen, mask & 1, (mask & 2) ? NULL : &out, (mask & 4) ? NULL : &ol));
            FIN();
        }
    }
    { static const int cnts[] = { -1, 0, INT_MIN };
      for (size_t i = 0; i < 3; i++) for (int force = 0; force < 2; force++) if (BEGIN("decode|num_fragments=%d|force=%d", cnts[i], force)) {
            q_begin(&q); char *out = POISON; uint64_t ol = 7;
            refuse("C13", name, liberasurecode_decode(desc, lst, cnts[i], L->s.flen, force, &out, &ol)); FIN(); }
      static const uint64_t fls[] = { 0, 1, 79 };
      for (size_t i = 0; i < 3; i++) for (int force = 0; force < 2; force++) if (BEGIN("decode|fragment_len=%llu|force=%d", (unsigned long long)fls[i], force)) {
            q_begin(&q); char *out = POISON; uint64_t ol = 7;
            refuse("C13", name, liberasurecode_decode(desc, lst + 1, n - 1, fls[i], force, &out, &ol)); FIN(); }
      for (size_t i = 0; i < 3; i++) if (BEGIN("reconstruct|num_fragments=%d", cnts[i])) {
            q_begin(&q); char *o = malloc(L->s.flen);
            refuse("C13", name, liberasurecode_reconstruct_fragment(desc, lst, cnts[i], L->s.flen, 0, o)); free(o); FIN(); }
      for (size_t i = 0; i < 3; i++) if (BEGIN("reconstruct|fragment_len=%llu", (unsigned long long)fls[i])) {
            q_begin(&q); char *o = malloc(L->s.flen);
            refuse("C13", name, liberasurecode_reconstruct_fragment(desc, lst + 1, n - 1, fls[i], 0, o)); free(o); FIN(); }
      for (size_t i = 0; i < 3; i++) if (BEGIN("verify_stripe_metadata|num_fragments=%d", cnts[i])) {
            q_begin(&q); refuse("C13", name, liberasurecode_verify_stripe_metadata(desc, lst, cnts[i])); FIN(); }
    }
    for (int mask = 1; mask < 4; mask++) if (BEGIN("reconstruct|null-mask=%d", mask)) {
        q_begin(&q); char *o = malloc(L->s.flen);
        refuse("C13", name, liberasurecode_reconstruct_fragment(desc, (mask & 1) ? NULL : lst + 1, n - 1, L->s.flen, 0, (mask & 2) ? NULL : o)); free(o); FIN(); }
    { int dests[] = { -1, n, n + 1, INT_MAX, INT_MIN, 32, 64 };
      for (size_t i = 0; i < sizeof dests / sizeof dests[0]; i++) for (int present_all = 0; present_all < 2; present_all++)
        if (BEGIN("reconstruct|destination=%d|all-present=%d", dests[i], present_all)) {
            q_begin(&q); char *o = malloc(L->s.flen);
            refuse("C13", name, liberasurecode_reconstruct_fragment(desc, present_all ? lst : lst + 1, present_all ? n : n - 1, L->s.flen, dests[i], o)); free(o); FIN(); }
    }
    for (int mask = 1; mask < 8; mask++) if (BEGIN("fragments_needed|null-mask=%d", mask)) {
        q_begin(&q); int R[2] = { 0, -1 }, X[1] = { -1 }, N[40];
        refuse("C13", name, liberasurecode_fragments_needed(desc, (mask & 1) ? NULL : R, (mask & 2) ? NULL : X, (mask & 4) ? NULL : N)); FIN(); }
    /* index lists naming a fragment the stripe does not have (k+m .. 31: representable in the library's 32-bit index sets):
     * whatever the answer, nothing outside the lists and the k+m+1 output slots is touched; an answer of 0 is a well-formed list */
    { int bad[] = { n, n + 1, 31, 30 };
      for (size_t i = 0; i < sizeof bad / sizeof bad[0]; i++) for (int where = 0; where < 3; where++) {
        if (bad[i] < n || bad[i] > 31) continue;
        if (!BEGIN("fragments_needed|index=%d|in=%s", bad[i], where == 0 ? "rebuild" : where == 1 ? "exclude" : "both")) continue;
        q_begin(&q);
        int *R = g_alloc(sizeof(int) * 3, G_END), *X = g_alloc(sizeof(int) * 3, G_END), *N = g_alloc(sizeof(int) * (size_t)(n + 1), G_END);
        R[0] = where == 1 ? 0 : bad[i]; R[1] = where == 2 ? 0 : -1; R[2] = -1;
        X[0] = where == 0 ? -1 : bad[i]; X[1] = -1; X[2] = -1;
        for (int j = 0; j <= n; j++) N[j] = 0x7f7f7f7f;
        g_ro(R); g_ro(X);
        int rc = liberasurecode_fragments_needed(desc, R, X, N);
        mon_count("evaluations", 1); mon_count("needed_with_index_beyond_the_stripe", 1);
        if (rc > 0) mon_viol("C13", "positive-rc", "%s returned %d", name, rc);
        if (rc == 0) { int len = -1; for (int j = 0; j <= n; j++) if (N[j] == -1) { len = j; break; }
                       if (len < 0) mon_viol("C13", "needed-not-terminated", "%s returned 0 without a terminator in k+m+1 slots", name);
                       else for (int j = 0; j < len; j++) if (N[j] < 0 || N[j] >= n) { mon_viol("C13", "needed-out-of-range", "%s returned 0 with index %d in its answer", name, N[j]); break; } }
        g_free(R); g_free(X); g_free(N);
        FIN(); }
    }
    for (int mask = 1; mask < 4; mask++) if (BEGIN("get_fragment_metadata|null-mask=%d", mask)) {
        q_begin(&q); fragment_metadata_t md;
        refuse("C13", name, liberasurecode_get_fragment_metadata((mask & 1) ? NULL : lst[0], (mask & 2) ? NULL : &md)); FIN(); }
    if (BEGIN("is_invalid_fragment|null-fragment%s", "")) {
        q_begin(&q); int v = is_invalid_fragment(desc, NULL); mon_count("evaluations", 1);
        if (v == 0) mon_viol("C13", "not-refused", "is_invalid_fragment(desc, NULL) reported valid"); FIN(); }
    if (BEGIN("verify_stripe_metadata|null-fragments%s", "")) { q_begin(&q); refuse("C13", name, liberasurecode_verify_stripe_metadata(desc, NULL, n)); FIN(); }
    (void)k;
#undef BEGIN
#undef FIN
}

static void c13_full_cycle(const cfg_t *c, int desc)
{
    /* no result is judged here: only "no arithmetic or memory fault" (sanitizers / signals decide) */
    int k = c->k, m = c->m, n = k + m;
    uint64_t lens[3] = { 0, 1, 1000 };
    for (int li = 0; li < 3; li++) {
        uint8_t *d = malloc(lens[li] + 1); memset(d, 0xA7, lens[li] + 1);
        char **ed = NULL, **ep = NULL; uint64_t fl = 0;
        int rc = liberasurecode_encode(desc, (char *)d, lens[li], &ed, &ep, &fl);
        mon_count("cycle_calls", 1);
        if (rc == 0) {
            char *lst[64]; int cnt = 0;
            for (int i = 0; i < n; i++) { if (m >= 1 && i == 0) continue; lst[cnt++] = i < k ? ed[i] : ep[i - k]; }
            char *out = NULL; uint64_t ol = 0;
            int drc = liberasurecode_decode(desc, lst, cnt, fl, li & 1, &out, &ol);
            if (drc == 0) liberasurecode_decode_cleanup(desc, out);
            char *o = malloc(fl ? fl : 1);
            liberasurecode_reconstruct_fragment(desc, lst, cnt, fl, 0, o);
            if (n > 1) liberasurecode_reconstruct_fragment(desc, lst, cnt, fl, n - 1, o);
            /* the fragment with the highest index absent / misaligned as well (decode with two losses, reconstruct of the last one) */
            if (m >= 2 && cnt >= 2) {
                char *out2 = NULL; uint64_t ol2 = 0;
                if (liberasurecode_decode(desc, lst, cnt - 1, fl, 0, &out2, &ol2) == 0) liberasurecode_decode_cleanup(desc, out2);
                liberasurecode_reconstruct_fragment(desc, lst, cnt - 1, fl, n - 1, o);
                char *mis = malloc(fl + 16); memcpy(mis + 3, lst[cnt - 1], fl); char *keep = lst[cnt - 1]; lst[cnt - 1] = mis + 3;
                if (liberasurecode_decode(desc, lst, cnt, fl, 0, &out2, &ol2) == 0) liberasurecode_decode_cleanup(desc, out2);
                lst[cnt - 1] = keep; free(mis);
                mon_count("cycle_calls", 3);
            }
            free(o);
            int R[2] = { 0, -1 }, X[1] = { -1 }, N[40];
            liberasurecode_fragments_needed(desc, R, X, N);
            fragment_metadata_t md; liberasurecode_get_fragment_metadata(lst[0], &md);
            is_invalid_fragment(desc, lst[0]);
            liberasurecode_verify_stripe_metadata(desc, lst, cnt);
            mon_count("cycle_calls", 8);
            liberasurecode_encode_cleanup(desc, ed, ep);
        }
        liberasurecode_get_aligned_data_size(desc, lens[li]);
        liberasurecode_get_minimum_encode_size(desc);
        liberasurecode_get_fragment_size(desc, (int)lens[li]);
        free(d);
    }
}

static void run_invalid(void)
{
    ledger_refresh();
    static const cfg_t pool[] = {
        { EC_BACKEND_LIBERASURECODE_RS_VAND, 4, 2, 2, 0, CHKSUM_CRC32 }, { EC_BACKEND_FLAT_XOR_HD, 10, 5, 3, 0, CHKSUM_NONE },
        { EC_BACKEND_NULL, 4, 2, 2, 0, CHKSUM_CRC32 }, { EC_BACKEND_ISA_L_RS_VAND, 4, 2, 2, 0, CHKSUM_CRC32 }, { EC_BACKEND_ISA_L_RS_CAUCHY, 6, 3, 3, 0, CHKSUM_NONE },
        { EC_BACKEND_LIBERASURECODE_RS_VAND, 1, 1, 1, 0, CHKSUM_NONE }, { EC_BACKEND_FLAT_XOR_HD, 6, 6, 4, 0, CHKSUM_CRC32 }, { EC_BACKEND_SHSS, 4, 2, 2, 0, CHKSUM_CRC32 },
        { EC_BACKEND_JERASURE_RS_VAND, 4, 2, 2, 0, CHKSUM_CRC32 }, { EC_BACKEND_JERASURE_RS_CAUCHY, 3, 2, 2, 0, CHKSUM_NONE }, { EC_BACKEND_LIBPHAZR, 4, 2, 1, 0, CHKSUM_CRC32 },
    };
    for (size_t pi = 0; pi < sizeof pool / sizeof pool[0]; pi++) {
        cfg_t c = pool[pi];
        if (!isal_ok && (c.be == EC_BACKEND_ISA_L_RS_VAND || c.be == EC_BACKEND_ISA_L_RS_CAUCHY)) continue;
        if (!shss_ok && c.be == EC_BACKEND_SHSS) continue;
        if (!jer_ok && IS_JER(c.be)) continue;
        if (!phazr_ok && c.be == EC_BACKEND_LIBPHAZR) continue;
        live_t L; int ok = 0; int destroyed = -1;
        char ck[96]; cfg_key(&c, ck, sizeof ck);
        if (mon_case_all("%s|setup", ck)) {
            ok = live_open(&L, &c, 301 + pi, MO.seed) == 0;
            if (!ok) mon_viol("C13", "setup-failed", "could not create/encode a supported configuration");
            else { cfg_t c2 = c; int d2 = lec_create(&c2); if (d2 > 0) { liberasurecode_instance_destroy(d2); destroyed = d2; } }
            ledger_refresh();
            mon_end();
        }
        if (!ok) continue;
        char dn[32];
        for (size_t i = 0; i < sizeof dead_descs_fixed / sizeof dead_descs_fixed[0]; i++) { snprintf(dn, sizeof dn, "%d", dead_descs_fixed[i]); c13_dead_descriptor(&L, dead_descs_fixed[i], dn); }
        if (destroyed > 0) c13_dead_descriptor(&L, destroyed, "destroyed");
        c13_dead_descriptor(&L, L.desc + 1000, "never-issued");
        c13_dead_descriptor_other_thread(&L);
        c13_null_and_ranges(&L);
        /* the live instance is still intact after all the refused calls */
        if (mon_case("%s|still-functional", ck)) { live_roundtrip(&L, "C13", "after refused calls", 0); mon_count("evaluations", 1); mon_end(); }
        /* converse clause: an accepted instance used in unusual but valid ways - long lists with many duplicate pointers,
         * any non-zero value of the forced-check flag, every count from 1 to the list length - without faults */
        if (c.be != EC_BACKEND_NULL) {
            static const int cnts[] = { 1, 31, 32, 33, 34, 39, 40, 48, 64, 100, 200 };
            static const int fvs[] = { 0, 1, -1, 2, -0x7fffffff - 1 };
            for (size_t ci2 = 0; ci2 < sizeof cnts / sizeof cnts[0]; ci2++) for (size_t fi = 0; fi < sizeof fvs / sizeof fvs[0]; fi++) {
                if (!mon_case("%s|valid-usage|pointers=%d|force=%d", ck, cnts[ci2], fvs[fi])) continue;
                qp_t q; q_begin(&q);
                int n = L.s.n, k = c.k, cnt = cnts[ci2];
                char **lst = malloc(sizeof(char *) * (size_t)cnt);
                int skip = cfg_tol(&c) >= 1 ? (int)(ci2 % (size_t)k) : -1;          /* one data fragment left out: the real decoder runs */
                for (int i = 0, f = 0; i < cnt; i++) { if (f == skip) f = (f + 1) % n; lst[i] = (char *)L.s.frag[f]; f = (f + 1) % n; }
                char *out = NULL; uint64_t ol = 0;
                int rc = liberasurecode_decode(L.desc, lst, cnt, L.s.flen, fvs[fi], &out, &ol);
                mon_count("evaluations", 1); mon_count("valid_usage_calls", 1);
                int enough = cnt >= n - 1;
                if (rc == 0) { if (ol != L.s.len || memcmp(out, L.data, L.s.len)) mon_viol("C13", "valid-usage-wrong-bytes", "decode of %d pointers (force=%d) returned wrong bytes", cnt, fvs[fi]); liberasurecode_decode_cleanup(L.desc, out); }
                else if (rc > 0 || enough) mon_viol("C13", "valid-usage-refused", "decode of %d valid pointers covering all but one fragment (force=%d) returned %d", cnt, fvs[fi], rc);
                char *o = malloc(L.s.flen);
                rc = liberasurecode_reconstruct_fragment(L.desc, lst, cnt, L.s.flen, skip >= 0 ? skip : 0, o);
                if (rc == 0 && memcmp(o, L.s.frag[skip >= 0 ? skip : 0], L.s.flen)) mon_viol("C13", "valid-usage-wrong-bytes", "reconstruct from %d pointers returned a wrong fragment", cnt);
                free(o);
                liberasurecode_verify_stripe_metadata(L.desc, lst, cnt);
                free(lst);
                q_zero(&q, "C13", "valid calls with a long fragment list");
                mon_distinct("nontrivial", mon_hash_u64((uint64_t)cnt * 16 + fi, mon_hash_str(ck, 75)));
                mon_end();
            }
        }
        if (mon_case_all("%s|teardown", ck)) { live_close(&L); mon_end(); }
    }
    /* create: NULL args, backend ids */
    { qp_t q; static const int ids[] = { -1, 9, 10, 255, 1000, INT_MAX, 1, 2, 8, INT_MIN };      /* out of range, or backends whose library is not installed (jerasure, libphazr) */
      for (size_t i = 0; i < sizeof ids / sizeof ids[0]; i++) {
        /* (ids of backends whose library - or verif-owned stand-in - can be loaded are not "bad": skipped) */
        if (ids[i] >= 0 && ids[i] < EC_BACKENDS_MAX && liberasurecode_backend_available((ec_backend_id_t)ids[i])) { mon_count0("bad_backend_ids_skipped_because_available", 1); continue; }
        if (mon_case("create|backend-id=%d", ids[i])) {
            q_begin(&q);
            struct ec_args a; memset(&a, 0, sizeof a); a.k = 4; a.m = 2; a.hd = 2; a.ct = CHKSUM_NONE;
            int rc = liberasurecode_instance_create((ec_backend_id_t)ids[i], &a);
            refuse("C13", "instance_create", rc);
            if (rc > 0) liberasurecode_instance_destroy(rc);
            int av = liberasurecode_backend_available((ec_backend_id_t)ids[i]);
            if (av != 0) mon_viol("C13", "unavailable-backend-available", "backend_available(%d) returned %d", ids[i], av);
            q_zero(&q, "C13", "create with bad backend id");
            mon_distinct("nontrivial", mon_hash_u64((uint64_t)(uint32_t)ids[i], 73));
            mon_end();
        }
      }
      for (int be = 0; be < 9; be++) if (mon_case("create|backend=%d|null-args", be)) {
            q_begin(&q); refuse("C13", "instance_create(NULL args)", liberasurecode_instance_create((ec_backend_id_t)be, NULL)); q_zero(&q, "C13", "create(NULL)"); mon_end(); }
    }
    /* shape box */
    static const int bes[] = { EC_BACKEND_NULL, EC_BACKEND_LIBERASURECODE_RS_VAND, EC_BACKEND_FLAT_XOR_HD, EC_BACKEND_ISA_L_RS_VAND, EC_BACKEND_ISA_L_RS_CAUCHY,
                               EC_BACKEND_JERASURE_RS_VAND, EC_BACKEND_JERASURE_RS_CAUCHY, EC_BACKEND_LIBPHAZR };
    static const int ws[] = { 0, -1, 4, 8, 16, 32, 64, 7, 63, 1 };
    for (size_t bi = 0; bi < 8; bi++) {
        int be = bes[bi];
        if (!isal_ok && (be == EC_BACKEND_ISA_L_RS_VAND || be == EC_BACKEND_ISA_L_RS_CAUCHY)) continue;
        if (!jer_ok && IS_JER(be)) continue;
        if (!phazr_ok && be == EC_BACKEND_LIBPHAZR) continue;
        for (int k = -1; k <= 33; k++) for (int m = -1; m <= 33; m++) {
            int nhd = be == EC_BACKEND_FLAT_XOR_HD ? 8 : 1;
            for (int hi = 0; hi < nhd; hi++) {
                int hd = be == EC_BACKEND_FLAT_XOR_HD ? hi : (m > 0 ? m : 0);
                int nw = (be == EC_BACKEND_FLAT_XOR_HD || be == EC_BACKEND_LIBERASURECODE_RS_VAND) ? 1 : (MO.thorough ? 10 : 3);
                for (int wi = 0; wi < nw; wi++) {
                    int w = nw == 1 ? 0 : (MO.thorough ? ws[wi] : ws[(wi * 3 + k + m + 70) % 10]);
                    if (wi == 0 && nw > 1) w = 0;
                    if (!mon_case("shape|%s|k=%d,m=%d,hd=%d,w=%d", be_name(be), k, m, hd, w)) continue;
                    qp_t q; q_begin(&q);
                    struct ec_args a; memset(&a, 0, sizeof a); a.k = k; a.m = m; a.hd = hd; a.w = w; a.ct = ((k + m) & 1) ? CHKSUM_CRC32 : CHKSUM_NONE;
                    int d = liberasurecode_instance_create((ec_backend_id_t)be, &a);
                    mon_count("evaluations", 1); mon_count("shapes_tried", 1);
                    int must_refuse = k < 1 || m < 0 || k + m > 32 || (be == EC_BACKEND_FLAT_XOR_HD && !xor_find(k, m, hd));
                    if (d > 0) {
                        mon_count("shapes_accepted", 1);
                        if (must_refuse) mon_viol("C13", "unsupported-shape-accepted", "create accepted an unsupported shape (descriptor %d)", d);
                        cfg_t c = { be, k, m, hd, w, (int)a.ct };
                        /* (bit-matrix code: the stand-in inverts a (k*w)^2 bit matrix per decode; the widest shapes are only created and destroyed) */
                        if (be == EC_BACKEND_JERASURE_RS_CAUCHY && k * cfg_jer_w(&c) > 96) mon_count("shapes_accepted_not_cycled_too_wide_for_the_standin", 1);
                        else c13_full_cycle(&c, d);
                        int rc = liberasurecode_instance_destroy(d);
                        if (rc != 0) mon_viol("C13", "destroy-failed", "destroy of an accepted shape returned %d", rc);
                    } else if (d == 0) mon_viol("C13", "create-returned-zero", "create returned 0 (neither a descriptor nor an error)");
                    else mon_count("shapes_refused", 1);
                    q_delta(&q, "C13", "create(+cycle+destroy) of a shape", 0, 1);
                    mon_distinct("nontrivial", mon_hash_u64((uint64_t)((k + 1) * 40 + m + 1) * 1000 + (uint64_t)hd * 70 + (uint64_t)(w + 1), mon_hash_u64((uint64_t)be, 74)));
                    if ((k * 35 + m) % 389 == 0) mon_sample("{\"backend\":\"%s\",\"k\":%d,\"m\":%d,\"hd\":%d,\"w\":%d,\"create_rc\":%d,\"must_refuse\":%d}", be_name(be), k, m, hd, w, d, must_refuse);
                    mon_end();
                }
            }
        }
    }
    if (mon_case_all("final-leakcheck")) { q_leakcheck("C13", "end of invalid-argument workload"); mon_end(); }
}

/* ================================================================ C14 */
#define NSLOT 4
enum { A_CREATE_RS, A_CREATE_RS2, A_CREATE_XOR, A_CREATE_NULL, A_CREATE_RS0, A_FAILED_CREATE, A_DESTROY_DEAD, A_DESTROY0, A_USE0 = A_DESTROY0 + NSLOT, A_MAX = A_USE0 + NSLOT };
static const char *act_name(int a)
{
    static char b[24];
    switch (a) {
    case A_CREATE_RS: return "create-rs(4,2)"; case A_CREATE_RS2: return "create-rs(3,3)"; case A_CREATE_XOR: return "create-xor(5,5,3)"; case A_CREATE_NULL: return "create-null"; case A_CREATE_RS0: return "create-rs(3,0)";
    case A_FAILED_CREATE: return "failed-create"; case A_DESTROY_DEAD: return "destroy-dead";
    }
    if (a >= A_USE0) snprintf(b, sizeof b, "use(%d)", a - A_USE0); else snprintf(b, sizeof b, "destroy(%d)", a - A_DESTROY0);
    return b;
}

typedef struct { live_t L; int live; } slot_t;
typedef struct { slot_t s[NSLOT]; int dead[64]; int ndead; long step; } hist_t;

static int model_nlive(hist_t *h) { int c = 0; for (int i = 0; i < NSLOT; i++) c += h->s[i].live; return c; }

static void check_dead(hist_t *h, const char *what)
{
    /* every API on (a rotating sample of) dead descriptors returns an error */
    for (int q = 0; q < 2 && h->ndead; q++) {
        int d = h->dead[(h->step + q * 7) % h->ndead];
        int alive = 0; for (int i = 0; i < NSLOT; i++) if (h->s[i].live && h->s[i].L.desc == d) alive = 1;
        if (alive) continue;    /* descriptor was legitimately reissued */
        char *out = POISON; uint64_t ol = 0; char **ed = POISON, **ep = POISON; uint64_t fl = 0; char buf[160] = {0}; char *lst[1] = { buf };
        int r[8];
        r[0] = liberasurecode_instance_destroy(d);
        r[1] = liberasurecode_encode(d, buf, 10, &ed, &ep, &fl);
        r[2] = liberasurecode_decode(d, lst, 1, 160, 0, &out, &ol);
        r[3] = liberasurecode_reconstruct_fragment(d, lst, 1, 160, 0, buf);
        r[4] = liberasurecode_get_fragment_size(d, 10);
        r[5] = liberasurecode_encode_cleanup(d, NULL, NULL);
        r[6] = liberasurecode_decode_cleanup(d, NULL);
        r[7] = liberasurecode_get_aligned_data_size(d, 10);
        mon_count("evaluations", 8); mon_count("dead_descriptor_calls", 8);
        for (int i = 0; i < 8; i++) if (r[i] >= 0) { mon_viol("C14", "dead-descriptor-accepted", "%s: API #%d accepted dead descriptor %d (rc=%d)", what, i, d, r[i]); break; }
    }
}

static void hist_step(hist_t *h, int a, const char *hk)
{
    char what[200]; snprintf(what, sizeof what, "%s step %ld %s", hk, h->step, act_name(a));
    int before = registry_len();
    if (before != model_nlive(h)) mon_viol("C14", "registry-length", "%s: registry holds %d instances before the step, model %d", what, before, model_nlive(h));
    if (a <= A_CREATE_RS0) {
        int sl = -1; for (int i = 0; i < NSLOT; i++) if (!h->s[i].live) { sl = i; break; }
        if (sl < 0) return;
        static const cfg_t cf[5] = { { EC_BACKEND_LIBERASURECODE_RS_VAND, 4, 2, 2, 0, CHKSUM_CRC32 }, { EC_BACKEND_LIBERASURECODE_RS_VAND, 3, 3, 3, 0, CHKSUM_NONE },
                                     { EC_BACKEND_FLAT_XOR_HD, 5, 5, 3, 0, CHKSUM_CRC32 }, { EC_BACKEND_NULL, 4, 2, 2, 0, CHKSUM_NONE },
                                     { EC_BACKEND_LIBERASURECODE_RS_VAND, 3, 0, 0, 0, CHKSUM_CRC32 } };    /* no parity at all: legal (m >= 0), shares the GF tables like any rs_vand instance */
        int rc = live_open(&h->s[sl].L, &cf[a], 100 + (uint64_t)a * 13 + (uint64_t)sl, MO.seed + (uint64_t)h->step);
        mon_count("evaluations", 1); mon_count("creates", 1);
        int d = h->s[sl].L.desc;
        if (rc != 0) { mon_viol("C14", "create-failed", "%s: create/encode failed (%d)", what, d); return; }
        if (d <= 0) mon_viol("C14", "descriptor-not-positive", "%s: descriptor %d", what, d);
        for (int i = 0; i < NSLOT; i++) if (i != sl && h->s[i].live && h->s[i].L.desc == d) mon_viol("C14", "descriptor-not-unique", "%s: descriptor %d is already live in slot %d", what, d, i);
        h->s[sl].live = 1;
        if (d > 0x7ffffff0 || d < 8) mon_count("creates_near_wrap", 1);
    } else if (a == A_FAILED_CREATE) {
        /* (jerasure_rs_vand with w = 7: backend not available, or - with the stand-in library - a word size its init refuses) */
        static const struct { int be, k, m, hd; } bad[] = { { EC_BACKEND_FLAT_XOR_HD, 4, 4, 3 }, { EC_BACKEND_JERASURE_RS_VAND, 4, 2, 2 }, { EC_BACKEND_LIBERASURECODE_RS_VAND, 30, 10, 10 }, { 99, 4, 2, 2 }, { EC_BACKEND_FLAT_XOR_HD, 10, 5, 5 } };
        int w = (int)(h->step % 5);
        cfg_t c = { bad[w].be, bad[w].k, bad[w].m, bad[w].hd, bad[w].be == EC_BACKEND_JERASURE_RS_VAND ? 7 : 0, CHKSUM_NONE };
        int d = lec_create(&c);
        mon_count("evaluations", 1); mon_count("failed_creates", 1);
        if (d > 0) { mon_viol("C14", "bad-create-accepted", "%s: create of an unsupported configuration returned %d", what, d); liberasurecode_instance_destroy(d); }
    } else if (a == A_DESTROY_DEAD) {
        int d = h->ndead ? h->dead[h->step % h->ndead] : 424242;
        int alive = 0; for (int i = 0; i < NSLOT; i++) if (h->s[i].live && h->s[i].L.desc == d) alive = 1;
        if (!alive) { int rc = liberasurecode_instance_destroy(d); mon_count("evaluations", 1); if (rc >= 0) mon_viol("C14", "dead-descriptor-destroyed", "%s: destroying dead descriptor %d returned %d", what, d, rc); }
    } else if (a >= A_USE0) {
        int sl = a - A_USE0; if (!h->s[sl].live) return;
        live_roundtrip(&h->s[sl].L, "C14", what, (int)h->step);
        mon_count("evaluations", 1);
    } else {
        int sl = a - A_DESTROY0; if (!h->s[sl].live) return;
        int d = h->s[sl].L.desc;
        int rc = liberasurecode_instance_destroy(d);
        mon_count("evaluations", 1); mon_count("destroys", 1);
        if (rc != 0) mon_viol("C14", "destroy-failed", "%s: destroy(%d) returned %d", what, d, rc);
        h->s[sl].L.desc = -1; live_close(&h->s[sl].L); h->s[sl].live = 0;
        if (h->ndead < 64) h->dead[h->ndead++] = d; else h->dead[h->step % 64] = d;
    }
    int after = registry_len();
    if (after != model_nlive(h)) mon_viol("C14", "registry-length", "%s: registry holds %d instances after the step, model %d", what, after, model_nlive(h));
    check_dead(h, what);
    h->step++;
}

static int act_enabled(hist_t *h, int a)
{
    if (a <= A_CREATE_RS0) return model_nlive(h) < NSLOT;
    if (a == A_FAILED_CREATE || a == A_DESTROY_DEAD) return 1;
    if (a >= A_USE0) return h->s[a - A_USE0].live;
    return h->s[a - A_DESTROY0].live;
}

static void hist_finish(hist_t *h, const char *hk)
{
    /* every survivor still works, in every order of destruction of the remaining ones */
    for (int i = 0; i < NSLOT; i++) if (h->s[i].live) live_roundtrip(&h->s[i].L, "C14", "end of history", i);
    int order = (int)(mon_case_idx % 2);
    for (int q = 0; q < NSLOT; q++) {
        int i = order ? NSLOT - 1 - q : q;
        if (!h->s[i].live) continue;
        int d = h->s[i].L.desc;
        if (liberasurecode_instance_destroy(d) != 0) mon_viol("C14", "destroy-failed", "%s: final destroy(%d) failed", hk, d);
        h->s[i].L.desc = -1; live_close(&h->s[i].L); h->s[i].live = 0;
        for (int j = 0; j < NSLOT; j++) if (h->s[j].live) live_roundtrip(&h->s[j].L, "C14", "after destroying a sibling", j);
    }
    if (registry_len() != 0) mon_viol("C14", "registry-not-empty", "%s: %d instances left registered", hk, registry_len());
}

static void run_one_history(const int *acts, int len, int preset, const char *kind)
{
    char hk[256]; char *p = hk; p += sprintf(p, "%s|preset=%d|", kind, preset);
    for (int i = 0; i < len && p - hk < 200; i++) p += sprintf(p, "%s%s", i ? ">" : "", act_name(acts[i]));
    if (!mon_case("%s", hk)) return;
    hist_t h; memset(&h, 0, sizeof h);
    h.dead[h.ndead++] = 424242;
    /* counter presets (exported variable): 1 = start from 0, jump to INT_MAX-1 after the second create, so the
     * wrap lands on descriptors that are still live; 2 = start just below INT_MAX; 3 = start negative;
     * 4 = like 1 but the jump happens after the third create */
    if (preset == 1 || preset == 4 || preset == 5) next_backend_desc = 0;
    else if (preset == 2) next_backend_desc = INT_MAX - 1;
    else if (preset == 3) next_backend_desc = -5;
    int ncreate = 0;
    for (int i = 0; i < len; i++) {
        if (!act_enabled(&h, acts[i])) continue;
        hist_step(&h, acts[i], kind);
        if (acts[i] <= A_CREATE_RS0) {
            ncreate++;
            if ((preset == 1 && ncreate == 2) || (preset == 4 && ncreate == 3) || (preset == 5 && ncreate == 2)) next_backend_desc = INT_MAX - 1;
            /* 5 = second lap: the create after the jump received INT_MAX; the counter is put just below it again, so that later
             * creates walk up to a descriptor that may still be live at the very top of the range and have to step over it */
            if (preset == 5 && ncreate >= 3 && ncreate % 2 == 1) next_backend_desc = INT_MAX - 2;
        }
    }
    hist_finish(&h, kind);
    uint64_t hh = mon_hash(acts, sizeof(int) * (size_t)len, (uint64_t)preset);
    mon_distinct("nontrivial", hh);
    mon_count("histories", 1);
    if (mon_case_idx % 20011 == 0) mon_sample("{\"history\":\"%s\"}", hk);
    mon_end();
}

static void dfs(int *acts, int depth, int maxd, hist_t *shadow)
{
    /* enumerate canonical sequences using a shadow model (no library calls) to prune disabled actions */
    if (depth == maxd) {
        for (int preset = 0; preset < 2; preset++) run_one_history(acts, maxd, preset, "exhaustive");
        return;
    }
    for (int a = 0; a < A_MAX; a++) {
        if (!act_enabled(shadow, a)) continue;
        hist_t save = *shadow;
        if (a <= A_CREATE_RS0) { for (int i = 0; i < NSLOT; i++) if (!shadow->s[i].live) { shadow->s[i].live = 1; break; } }
        else if (a >= A_DESTROY0 && a < A_USE0) shadow->s[a - A_DESTROY0].live = 0;
        acts[depth] = a;
        dfs(acts, depth + 1, maxd, shadow);
        *shadow = save;
    }
}

static void helper_thread_destroy_rounds(const char *prop)
{
    /* "a destroyed descriptor is refused by every entry point" also when the destroy came from another thread than the one that
     * used the descriptor last (no overlap in time: the helper thread is joined before the descriptor is used again) */
    for (int round = 0; round < 6; round++) {
        if (!mon_case("destroyed-by-helper-thread|round=%d", round)) continue;
        cfg_t ca = { round & 1 ? EC_BACKEND_FLAT_XOR_HD : EC_BACKEND_LIBERASURECODE_RS_VAND, round & 1 ? 5 : 4, round & 1 ? 5 : 2, round & 1 ? 3 : 2, 0, CHKSUM_CRC32 };
        cfg_t cb = { round & 2 ? EC_BACKEND_NULL : EC_BACKEND_LIBERASURECODE_RS_VAND, 3, 3, 3, 0, CHKSUM_NONE };
        live_t A, B;
        if (live_open(&A, &ca, 500 + (uint64_t)round, MO.seed) != 0 || live_open(&B, &cb, 300, MO.seed) != 0) { mon_viol(prop, "create-failed", "setup"); mon_end(); continue; }
        live_roundtrip(&B, prop, "second instance", 0);
        live_roundtrip(&A, prop, "instance used last by this thread", 1);
        xthr_t t; memset(&t, 0, sizeof t); t.d = A.desc;
        pthread_t th; pthread_create(&th, NULL, xthr_destroy_only, &t); pthread_join(th, NULL);
        mon_count("evaluations", 5); mon_count("descriptors_destroyed_by_a_helper_thread", 1);
        if (t.after[5] != 0) mon_viol(prop, "destroy-failed", "destroy on the helper thread returned %d", t.after[5]);
        int r0 = liberasurecode_get_fragment_size(A.desc, 1000), r1 = liberasurecode_encode_cleanup(A.desc, NULL, NULL), r2 = liberasurecode_decode_cleanup(A.desc, NULL), r3 = liberasurecode_get_minimum_encode_size(A.desc), r4 = liberasurecode_instance_destroy(A.desc);
        if (r0 >= 0 || r1 >= 0 || r2 >= 0 || r3 >= 0 || r4 >= 0) mon_viol(prop, "dead-descriptor-accepted", "descriptor %d destroyed by a helper thread is still accepted by the thread that used it last: %d/%d/%d/%d/%d", A.desc, r0, r1, r2, r3, r4);
        if (registry_find(A.desc)) mon_viol(prop, "dead-descriptor-registered", "descriptor %d still registered after destroy", A.desc);
        live_roundtrip(&B, prop, "other instance after the destroy", 1);
        A.desc = -1; live_close(&A); live_close(&B);
        mon_distinct("nontrivial", mon_hash_u64((uint64_t)round, 1414));
        mon_end();
    }
}

static void run_registry(void)
{
    int acts[256];
    int depth = MO.thorough ? 6 : 4;
    if (MO.arg1 > 0) depth = (int)MO.arg1;
    hist_t shadow; memset(&shadow, 0, sizeof shadow);
    for (int d = 1; d <= depth; d++) { memset(&shadow, 0, sizeof shadow); dfs(acts, 0, d, &shadow); }
    mon_count0("exhaustive_depth", depth);
    /* random histories up to length 200, several counter presets */
    int nrand = MO.thorough ? 20000 : 300;
    for (int i = 0; i < nrand; i++) {
        rng_t r; rng_seed(&r, MO.seed, 0x14000 + (uint64_t)i);
        int len = 10 + (int)rng_below(&r, 191);
        for (int j = 0; j < len; j++) acts[j] = (int)rng_below(&r, A_MAX);
        run_one_history(acts, len, i % 6, "random");
    }
    /* directed: an instance holding INT_MAX stays alive while the counter comes up to it a second time */
    { static const int second_lap[][12] = {
        { A_CREATE_RS, A_CREATE_RS2, A_CREATE_XOR, A_DESTROY0, A_CREATE_NULL, A_DESTROY0 + 1, A_CREATE_RS, A_USE0 + 2, A_USE0 + 1, A_USE0, A_DESTROY0 + 2, A_USE0 + 1 },
        { A_CREATE_NULL, A_CREATE_XOR, A_CREATE_RS, A_CREATE_RS2, A_DESTROY0 + 3, A_CREATE_RS0, A_DESTROY0, A_CREATE_XOR, A_USE0 + 2, A_USE0 + 3, A_USE0, A_DESTROY0 + 2 } };
      for (int q = 0; q < 2; q++) { memcpy(acts, second_lap[q], sizeof second_lap[q]); run_one_history(acts, 12, 5, "second-lap"); } }
    /* all destruction orders of 4 RS instances */
    int perm[4] = { 0, 1, 2, 3 };
    for (int pi = 0; pi < 24; pi++) {
        int a[16], n = 0;
        for (int i = 0; i < 4; i++) a[n++] = (i & 1) ? A_CREATE_RS2 : A_CREATE_RS;
        for (int i = 0; i < 4; i++) { a[n++] = A_DESTROY0 + perm[i]; for (int j = i + 1; j < 4; j++) a[n++] = A_USE0 + perm[j]; }
        run_one_history(a, n, pi % 2, "rs-destruction-order");
        /* next permutation */
        int i = 2; while (i >= 0 && perm[i] > perm[i + 1]) i--;
        if (i < 0) break;
        int j = 3; while (perm[j] < perm[i]) j--;
        int t = perm[i]; perm[i] = perm[j]; perm[j] = t;
        for (int lo = i + 1, hi = 3; lo < hi; lo++, hi--) { t = perm[lo]; perm[lo] = perm[hi]; perm[hi] = t; }
    }
    helper_thread_destroy_rounds("C14");
    /* many instances alive at once (nothing in the interface bounds their number): descriptors stay unique, every one of a
     * rotating sample keeps round-tripping while others come and go, everything is gone at the end */
    for (int round = 0; round < (MO.thorough ? 6 : 2); round++) {
        if (!mon_case("many-live-instances|round=%d", round)) continue;
        enum { NMANY = 320 };
        static live_t M[NMANY]; static int alive[NMANY];
        static const cfg_t cf[] = { { EC_BACKEND_NULL, 4, 2, 2, 0, CHKSUM_NONE }, { EC_BACKEND_FLAT_XOR_HD, 3, 3, 3, 0, CHKSUM_CRC32 }, { EC_BACKEND_LIBERASURECODE_RS_VAND, 2, 1, 1, 0, CHKSUM_NONE },
                                    { EC_BACKEND_FLAT_XOR_HD, 5, 5, 3, 0, CHKSUM_NONE }, { EC_BACKEND_LIBERASURECODE_RS_VAND, 3, 2, 2, 0, CHKSUM_CRC32 } };
        int base = registry_len(); int nlive = 0;
        memset(alive, 0, sizeof alive);
        rng_t r; rng_seed(&r, MO.seed, 0x14500 + (uint64_t)round);
        for (int i = 0; i < NMANY; i++) {
            if (live_open(&M[i], &cf[(i + round) % 5], 40 + (uint64_t)(i % 7), MO.seed + (uint64_t)i) != 0) { mon_viol("C14", "create-failed", "instance #%d of many could not be created", i); break; }
            alive[i] = 1; nlive++;
            for (int j = 0; j < i; j++) if (alive[j] && M[j].desc == M[i].desc) { mon_viol("C14", "descriptor-not-unique", "instance #%d got descriptor %d, which instance #%d still holds", i, M[i].desc, j); break; }
            if (M[i].desc <= 0) mon_viol("C14", "descriptor-not-positive", "descriptor %d", M[i].desc);
            if (i % 16 == 5) { int v = (int)rng_below(&r, (uint32_t)i + 1); if (alive[v]) live_roundtrip(&M[v], "C14", "one of many live instances", v); }
            if (i % 3 == 2) { int v = (int)rng_below(&r, (uint32_t)i + 1); if (alive[v]) { int d = M[v].desc; if (liberasurecode_instance_destroy(d) != 0) mon_viol("C14", "destroy-failed", "destroy of instance #%d (descriptor %d) among many failed", v, d); M[v].desc = -1; live_close(&M[v]); alive[v] = 0; nlive--;
                                   if (liberasurecode_get_fragment_size(d, 10) >= 0) { int re = 0; for (int j = 0; j <= i; j++) if (alive[j] && M[j].desc == d) re = 1; if (!re) mon_viol("C14", "dead-descriptor-accepted", "descriptor %d answers a query after its destroy", d); } } }
            if (registry_len() != base + nlive) { mon_viol("C14", "registry-length", "registry holds %d instances, model %d", registry_len(), base + nlive); break; }
        }
        mon_count("evaluations", NMANY); mon_count("many_instances_peak", nlive);
        for (int i = 0; i < NMANY; i++) if (alive[i] && i % 5 == round % 5) live_roundtrip(&M[i], "C14", "survivor among many", i);
        int order = round & 1;
        for (int q = 0; q < NMANY; q++) { int i = order ? NMANY - 1 - q : q; if (!alive[i]) continue; int d = M[i].desc; if (liberasurecode_instance_destroy(d) != 0) mon_viol("C14", "destroy-failed", "final destroy of instance #%d failed", i); M[i].desc = -1; live_close(&M[i]); alive[i] = 0; }
        if (registry_len() != base) mon_viol("C14", "registry-not-empty", "%d instances left registered after destroying all", registry_len() - base);
        mon_distinct("nontrivial", mon_hash_u64((uint64_t)round, 145));
        mon_end();
    }
    /* more users of the shared arithmetic tables than an 8-bit or a 16-bit count can hold: 300 live rs_vand instances, and on
     * top of them 2^16 further references - real instances in the thorough tier, references taken through the plug-in's own
     * exported init entry point (what every rs_vand instance calls) in the quick tier.  Then one more create, one destroy,
     * and the survivors are used; everything is released at the end. */
    if (mon_case("many-users-of-the-shared-tables")) {
        enum { NREAL = 300 };
        static int ds[NREAL]; int nreal = 0; cfg_t c = { EC_BACKEND_LIBERASURECODE_RS_VAND, 3, 2, 2, 0, CHKSUM_NONE };
        for (int i = 0; i < NREAL; i++) { int d = lec_create(&c); if (d <= 0) { mon_viol("C14", "create-failed", "rs_vand instance #%d of many: rc=%d", i, d); break; } ds[nreal++] = d; }
        live_t S1, S2; int have = live_open(&S1, &c, 77, MO.seed) == 0 && live_open(&S2, &c, 131, MO.seed + 1) == 0;
        if (have) { live_roundtrip(&S1, "C14", "with 300 rs_vand instances alive", 0); }
        long extra = 0; int *big = NULL; void *h = NULL; void (*in)(int, int) = NULL; void (*de)(void) = NULL;
        if (MO.thorough) { big = malloc(sizeof(int) * 66000); for (long i = 0; i < 66000; i++) { int d = lec_create(&c); if (d <= 0) { mon_viol("C14", "create-failed", "rs_vand instance #%ld of many: rc=%d", NREAL + i, d); break; } big[extra++] = d; } }
        else { h = dlopen("liberasurecode_rs_vand.so.1", RTLD_NOW); in = h ? (void (*)(int, int))dlsym(h, "init_liberasurecode_rs_vand") : NULL; de = h ? (void (*)(void))dlsym(h, "deinit_liberasurecode_rs_vand") : NULL;
               if (in && de) for (long i = 0; i < 66000; i++) { in(3, 2); extra++; } else mon_logf("HARNESS rs_vand plug-in entry points not found"); }
        mon_count("shared_table_users_peak", nreal + extra + 2);
        int one = lec_create(&c);
        if (one <= 0) mon_viol("C14", "create-failed", "create with %ld users of the shared tables alive: rc=%d", (long)nreal + extra + 2, one);
        else if (liberasurecode_instance_destroy(one) != 0) mon_viol("C14", "destroy-failed", "destroy with many users alive");
        if (nreal > 0) { liberasurecode_instance_destroy(ds[--nreal]); }
        if (have) { live_roundtrip(&S1, "C14", "survivor after one of many users of the shared tables was destroyed", 1); live_roundtrip(&S2, "C14", "survivor after one of many users of the shared tables was destroyed", 2); }
        if (big) { for (long i = 0; i < extra; i++) liberasurecode_instance_destroy(big[i]); free(big); } else if (de) for (long i = 0; i < extra; i++) de();
        if (have) live_roundtrip(&S2, "C14", "survivor after the extra users left", 3);
        for (int i = 0; i < nreal; i++) liberasurecode_instance_destroy(ds[i]);
        if (have) { live_roundtrip(&S1, "C14", "last two users of the shared tables", 4); live_close(&S1); live_roundtrip(&S2, "C14", "last user of the shared tables", 5); live_close(&S2); }
        if (h) dlclose(h);
        mon_count("evaluations", nreal + extra); mon_distinct("nontrivial", mon_hash_u64(7, 146));
        mon_end();
    }
    /* histories of creates (twins included) and destroys over small pools, every live instance used after every step */
    { static const cfg_t p1[] = { { EC_BACKEND_LIBERASURECODE_RS_VAND, 4, 2, 2, 0, CHKSUM_CRC32 }, { EC_BACKEND_FLAT_XOR_HD, 10, 5, 3, 0, CHKSUM_NONE }, { EC_BACKEND_NULL, 4, 2, 2, 0, CHKSUM_NONE }, { EC_BACKEND_ISA_L_RS_VAND, 4, 2, 2, 0, CHKSUM_NONE } };
      lec_population(p1, 4, "mixed-backends", MO.thorough ? 6 : 5, MO.thorough ? 300 : 24, MO.thorough ? 48 : 28); }
    if (mon_case_all("final-leakcheck")) { q_leakcheck("C14", "end of registry histories"); mon_end(); }
}

/* ================================================================ C16 */
enum { O_CREATE, O_DESTROY, O_ENCODE, O_DECODE_OK, O_DECODE_FEW, O_DECODE_UNRECOVERABLE, O_DECODE_DUP, O_DECODE_BADHDR, O_DECODE_RESEALED,
       O_RECON_OK, O_RECON_FEW, O_RECON_BADDEST, O_NEEDED, O_NEEDED_BEYOND, O_METADATA, O_VALIDATE, O_INVALID_ARG, O_BAD_CREATE, O_SIZES, O_FOREIGN, O_MAX };
static const char *op_name[] = { "create", "destroy", "encode", "decode-ok", "decode-too-few", "decode-unrecoverable", "decode-dup", "decode-bad-header", "decode-resealed",
                                 "reconstruct-ok", "reconstruct-too-few", "reconstruct-bad-dest", "needed", "needed-beyond", "metadata", "validate", "invalid-arg", "bad-create", "sizes", "foreign-fragments" };

static void rc_hist(const char *api, int rc)
{
    char nm[64];
    snprintf(nm, sizeof nm, "rc_%s_%s", api, rc == 0 ? "0" : rc == -EBACKENDNOTSUPP ? "EBACKENDNOTSUPP" : rc == -EBACKENDINITERR ? "EBACKENDINITERR" : rc == -EBACKENDNOTAVAIL ? "EBACKENDNOTAVAIL" :
             rc == -EINVALIDPARAMS ? "EINVALIDPARAMS" : rc == -EBADHEADER ? "EBADHEADER" : rc == -EINSUFFFRAGS ? "EINSUFFFRAGS" : rc == -EBADCHKSUM ? "EBADCHKSUM" : rc > 0 ? "positive" : "other-negative");
    mon_count(nm, 1);
}

static void run_history_ops(int hidx, int len)
{
    live_t S[NSLOT]; int live[NSLOT] = {0};
    rng_t r; rng_seed(&r, MO.seed, 0x16000 + (uint64_t)hidx);
    qp_t q0; q_begin(&q0);
    for (int st = 0; st < len; st++) {
        int op = (int)rng_below(&r, O_MAX);
        int sl = (int)rng_below(&r, NSLOT);
        qp_t q; q_begin(&q);
        int expect_zero = 1;      /* every op below is self-contained: whatever it allocates is released by its cleanup */
        char what[96]; snprintf(what, sizeof what, "history %d step %d %s", hidx, st, op_name[op]);
        if (op == O_CREATE) {
            if (live[sl]) continue;
            static const cfg_t cf[] = { { EC_BACKEND_LIBERASURECODE_RS_VAND, 4, 2, 2, 0, CHKSUM_CRC32 }, { EC_BACKEND_LIBERASURECODE_RS_VAND, 10, 4, 4, 0, CHKSUM_NONE }, { EC_BACKEND_FLAT_XOR_HD, 10, 5, 3, 0, CHKSUM_CRC32 },
                                        { EC_BACKEND_FLAT_XOR_HD, 6, 6, 4, 0, CHKSUM_NONE }, { EC_BACKEND_NULL, 8, 4, 4, 0, CHKSUM_CRC32 }, { EC_BACKEND_ISA_L_RS_VAND, 5, 3, 3, 0, CHKSUM_CRC32 }, { EC_BACKEND_ISA_L_RS_CAUCHY, 4, 4, 4, 0, CHKSUM_CRC32 },
                                        { EC_BACKEND_LIBERASURECODE_RS_VAND, 1, 1, 1, 0, CHKSUM_CRC32 }, { EC_BACKEND_SHSS, 4, 2, 2, 0, CHKSUM_CRC32 }, { EC_BACKEND_SHSS, 3, 3, 3, 0, CHKSUM_NONE },
                                        { EC_BACKEND_JERASURE_RS_VAND, 4, 2, 2, 0, CHKSUM_CRC32 }, { EC_BACKEND_JERASURE_RS_CAUCHY, 2, 2, 2, 0, CHKSUM_CRC32 }, { EC_BACKEND_JERASURE_RS_VAND, 3, 3, 3, 8, CHKSUM_NONE },
                                        { EC_BACKEND_LIBPHAZR, 4, 2, 1, 0, CHKSUM_CRC32 }, { EC_BACKEND_LIBPHAZR, 3, 3, 3, 0, CHKSUM_NONE } };
            cfg_t c = cf[rng_below(&r, shss_ok ? (jer_ok ? (phazr_ok ? 15 : 13) : 10) : 8)];
            if (!isal_ok && (c.be == EC_BACKEND_ISA_L_RS_VAND || c.be == EC_BACKEND_ISA_L_RS_CAUCHY)) c = cf[0];
            uint64_t len_ = rng_below(&r, 3) == 0 ? rng_below(&r, 3) : 1 + rng_below(&r, 3000);
            if (live_open(&S[sl], &c, len_, MO.seed + (uint64_t)st) == 0) live[sl] = 1; else mon_viol("C16", "create-failed", "%s", what);
            rc_hist("create", live[sl] ? 0 : S[sl].desc);
            expect_zero = 0;
        } else if (op == O_BAD_CREATE) {
            static const struct { int be, k, m, hd, w; } bad[] = { { EC_BACKEND_FLAT_XOR_HD, 4, 4, 3, 0 }, { EC_BACKEND_JERASURE_RS_VAND, 4, 2, 2, 7 }, { EC_BACKEND_LIBERASURECODE_RS_VAND, 30, 10, 10, 0 }, { 99, 4, 2, 2, 0 }, { EC_BACKEND_FLAT_XOR_HD, 10, 5, 5, 0 }, { EC_BACKEND_NULL, -1, 2, 2, 0 }, { EC_BACKEND_LIBPHAZR, 4, 2, 2, 0 },
                                                                  { EC_BACKEND_ISA_L_RS_VAND, 5, 3, 3, 4 }, { EC_BACKEND_ISA_L_RS_CAUCHY, 4, 4, 4, 64 }, { EC_BACKEND_ISA_L_RS_VAND, 5, 3, 3, 33 }, { EC_BACKEND_NULL, 4, 2, 2, 7 }, { EC_BACKEND_FLAT_XOR_HD, 16, 6, 3, 0 } };
            int w = (int)rng_below(&r, 12);
            if (!isal_ok && (bad[w].be == EC_BACKEND_ISA_L_RS_VAND || bad[w].be == EC_BACKEND_ISA_L_RS_CAUCHY)) w = 0;
            cfg_t c = { bad[w].be, bad[w].k, bad[w].m, bad[w].hd, bad[w].w, CHKSUM_NONE };
            int d = lec_create(&c); rc_hist("create", d);
            if (d > 0) liberasurecode_instance_destroy(d);
        } else if (!live[sl]) {
            continue;
        } else {
            live_t *L = &S[sl]; int n = L->s.n, k = L->c.k, tol = cfg_tol(&L->c);
            char *lst[80]; int cnt = 0; uint8_t *tmp[4] = {0}; int ntmp = 0; int wsel = -1;
            void *misb[80]; int nmis = 0;
            /* about half of the calls hand in some fragments at addresses that are not 16-byte aligned (data and parity),
             * which makes the library work on private aligned copies that it has to release itself */
#define MISALIGN_SOME() do { if (rng_below(&r, 2)) for (int i_ = 0; i_ < cnt; i_++) if (rng_below(&r, 3) == 0) { \
                void *b_ = NULL; if (posix_memalign(&b_, 16, L->s.flen + 16)) abort(); int o_ = 1 + (int)rng_below(&r, 15); \
                memcpy((char *)b_ + o_, lst[i_], L->s.flen); lst[i_] = (char *)b_ + o_; misb[nmis++] = b_; mon_count("history_fragments_misaligned", 1); } } while (0)
            int perm[32]; for (int i = 0; i < n; i++) perm[i] = i;
            rng_shuffle(&r, perm, n);
            switch (op) {
            case O_DESTROY: { int rc = liberasurecode_instance_destroy(L->desc); rc_hist("destroy", rc); L->desc = -1; live_close(L); live[sl] = 0; expect_zero = 0; } break;
            case O_ENCODE: { char **ed = NULL, **ep = NULL; uint64_t fl; int rc = liberasurecode_encode(L->desc, (char *)L->data, L->s.len, &ed, &ep, &fl); rc_hist("encode", rc);
                            /* the caller owns the contents of the returned fragments until cleanup: every other time it edits them in
                             * place first (header magic cleared, a whole fragment overwritten, a payload byte flipped) - cleanup releases
                             * what encode returned whatever the buffers hold by then */
                            if (rc == 0 && rng_below(&r, 2)) { int w1 = (int)rng_below(&r, (uint32_t)k), w2 = L->c.m ? (int)rng_below(&r, (uint32_t)L->c.m) : -1;
                                memset(ed[w1] + REF_OFF_MAGIC, 0, 4); if (w2 >= 0) { if (rng_below(&r, 2)) memset(ep[w2], 0xFF, fl); else ep[w2][REF_OFF_MAGIC] ^= 0x40; } if (fl > 80) ed[(w1 + 1) % k][80] ^= 1; mon_count("encode_outputs_edited_before_cleanup", 1); }
                            if (rc == 0) { int cr = liberasurecode_encode_cleanup(L->desc, ed, ep); rc_hist("encode_cleanup", cr); } } break;
            case O_DECODE_OK: case O_DECODE_FEW: case O_DECODE_UNRECOVERABLE: case O_DECODE_DUP: case O_DECODE_BADHDR: case O_DECODE_RESEALED: {
                int drop = op == O_DECODE_OK || op == O_DECODE_DUP ? (int)rng_below(&r, (uint32_t)tol + 1) : op == O_DECODE_FEW ? n - (k ? (int)rng_below(&r, (uint32_t)k) : 0) : op == O_DECODE_UNRECOVERABLE ? tol + 1 + (int)rng_below(&r, (uint32_t)(n - tol)) : (int)rng_below(&r, 2);
                if (drop > n) drop = n;
                for (int i = drop; i < n; i++) lst[cnt++] = (char *)L->s.frag[perm[i]];
                MISALIGN_SOME();
                if (op == O_DECODE_DUP && cnt) { lst[cnt] = lst[rng_below(&r, (uint32_t)cnt)]; cnt++; lst[cnt] = lst[0]; cnt++; }
                if ((op == O_DECODE_BADHDR || op == O_DECODE_RESEALED) && cnt) {
                    int w = (int)rng_below(&r, (uint32_t)cnt);
                    /* half of the re-sealed edits go to the listed fragment with the LOWEST index (the one whose header the
                     * library sizes the whole stripe by) */
                    if (op == O_DECODE_RESEALED && rng_below(&r, 2)) { int best = 0; for (int i = 1; i < cnt; i++) if (ref_get32((uint8_t *)lst[i] + REF_OFF_IDX) < ref_get32((uint8_t *)lst[best] + REF_OFF_IDX)) best = i; w = best; }
                    wsel = w;
                    tmp[ntmp] = malloc(L->s.flen); memcpy(tmp[ntmp], lst[w], L->s.flen);
                    if (op == O_DECODE_BADHDR) tmp[ntmp][rng_below(&r, 71)] ^= (uint8_t)(1 + rng_below(&r, 255));
                    else { int kind = (int)rng_below(&r, 4);
                           /* orig_data_size >= 2^31 (re-sealed): refused as a bad header by every path before the value is used */
                           if (kind == 3) { ref_put64(tmp[ntmp] + REF_OFF_ORIG, 0x80000000ull + rng_below(&r, 1000)); kind = 2; ref_put32(tmp[ntmp] + REF_OFF_IDX, ref_get32((uint8_t *)lst[w] + REF_OFF_IDX)); ref_hdr_reseal(tmp[ntmp], 0); lst[w] = (char *)tmp[ntmp]; ntmp++; goto resealed_done; }
                           if (kind == 0) ref_put32(tmp[ntmp] + REF_OFF_IDX, (uint32_t)(n + rng_below(&r, 3))); else if (kind == 1) tmp[ntmp][REF_OFF_BEID] ^= 1; else ref_put32(tmp[ntmp] + REF_OFF_IDX, rng_below(&r, (uint32_t)n)); ref_hdr_reseal(tmp[ntmp], 0); }
                    lst[w] = (char *)tmp[ntmp]; ntmp++;
                }
resealed_done: ;
                /* the edited fragment itself is handed in at an address that is not 16-byte aligned every other time (the
                 * library then works on a private aligned copy of a fragment it is about to refuse) */
                if (wsel >= 0 && rng_below(&r, 2)) { void *b_ = NULL; if (posix_memalign(&b_, 16, L->s.flen + 16)) abort(); int o_ = 1 + (int)rng_below(&r, 15); memcpy((char *)b_ + o_, lst[wsel], L->s.flen); lst[wsel] = (char *)b_ + o_; misb[nmis++] = b_; mon_count("history_edited_fragments_misaligned", 1); }
                static char *dummy[1];
                char *out = NULL; uint64_t ol = 0;
                int rc = liberasurecode_decode(L->desc, cnt ? lst : dummy, cnt, L->s.flen, (int)rng_below(&r, 2), &out, &ol);
                rc_hist("decode", rc);
                if (rc == 0) liberasurecode_decode_cleanup(L->desc, out);
            } break;
            case O_RECON_OK: case O_RECON_FEW: case O_RECON_BADDEST: {
                int drop = op == O_RECON_FEW ? tol + 1 + (int)rng_below(&r, (uint32_t)(n - tol)) : 1 + (int)rng_below(&r, (uint32_t)(tol > 0 ? tol : 1));
                if (drop > n) drop = n;
                if (tol == 0) drop = 0;
                for (int i = drop; i < n; i++) lst[cnt++] = (char *)L->s.frag[perm[i]];
                MISALIGN_SOME();
                int dest = op == O_RECON_BADDEST ? (rng_below(&r, 2) ? n + (int)rng_below(&r, 40) : -1 - (int)rng_below(&r, 40)) : perm[0];
                if (op == O_RECON_OK && drop < n && rng_below(&r, 4) == 0) { dest = perm[drop + (int)rng_below(&r, (uint32_t)(n - drop))]; mon_count("history_reconstruct_of_supplied_destination", 1); }
                char *o = malloc(L->s.flen ? L->s.flen : 1);
                static char *dummy[1];
                int rc = liberasurecode_reconstruct_fragment(L->desc, cnt ? lst : dummy, cnt, L->s.flen, dest, o);
                rc_hist("reconstruct", rc);
                free(o);
            } break;
            case O_NEEDED: case O_NEEDED_BEYOND: {
                int tot = op == O_NEEDED ? 1 + (int)rng_below(&r, (uint32_t)(tol > 0 ? tol : 1)) : tol + 1 + (int)rng_below(&r, (uint32_t)(n - tol));
                if (tot > n) tot = n;
                int nr = 1 + (int)rng_below(&r, (uint32_t)tot), nx = tot - nr;
                int R[40], X[40], N[40];
                memcpy(R, perm, sizeof(int) * (size_t)nr); R[nr] = -1; memcpy(X, perm + nr, sizeof(int) * (size_t)nx); X[nx] = -1;
                int rc = liberasurecode_fragments_needed(L->desc, R, X, N);
                rc_hist("fragments_needed", rc);
            } break;
            case O_METADATA: { fragment_metadata_t md; uint8_t *f = malloc(L->s.flen); memcpy(f, L->s.frag[perm[0]], L->s.flen); if (rng_below(&r, 2)) f[rng_below(&r, 71)] ^= 0x40; int rc = liberasurecode_get_fragment_metadata((char *)f, &md); rc_hist("get_fragment_metadata", rc); free(f); } break;
            case O_VALIDATE: { for (int i = 0; i < n; i++) lst[cnt++] = (char *)L->s.frag[i]; int rc = liberasurecode_verify_stripe_metadata(L->desc, lst, cnt); rc_hist("verify_stripe_metadata", rc); is_invalid_fragment(L->desc, lst[perm[0]]); } break;
            case O_FOREIGN: {
                /* fragments written through ANOTHER live instance (other shape and/or backend) handed to this one: whatever it
                 * answers, nothing may stay allocated */
                int o2 = -1; for (int q = 1; q < NSLOT; q++) if (live[(sl + q) % NSLOT]) { o2 = (sl + q) % NSLOT; break; }
                if (o2 < 0) break;
                /* a backend that owns a trailer behind the payload writes it for every fragment it rebuilds: fragments of a
                 * backend without one are too short for that (garbage in, nothing the properties speak about) */
                if ((L->c.be == EC_BACKEND_SHSS) != (S[o2].c.be == EC_BACKEND_SHSS) || L->c.be == EC_BACKEND_LIBPHAZR || S[o2].c.be == EC_BACKEND_LIBPHAZR) break;   /* (libphazr: tail size depends on w, hd and the payload) */
                /* likewise a payload size that is not a multiple of the reader's word size (rs_vand works on 16-bit words and its
                 * own stripes are always even; an ISA-L stripe may be odd): only stripes of the same backend, any shape, are exchanged */
                if (L->c.be != S[o2].c.be) break;
                live_t *F = &S[o2]; int fn = F->s.n;
                int keep = 1 + (int)rng_below(&r, (uint32_t)fn);
                int fp[32]; for (int i = 0; i < fn; i++) fp[i] = i; rng_shuffle(&r, fp, fn);
                for (int i = 0; i < keep; i++) lst[cnt++] = (char *)F->s.frag[fp[i]];
                char *out = NULL; uint64_t ol = 0;
                int rc = liberasurecode_decode(L->desc, lst, cnt, F->s.flen, (int)rng_below(&r, 2), &out, &ol);
                rc_hist("decode_foreign", rc);
                if (rc == 0) liberasurecode_decode_cleanup(L->desc, out);
                char *o = malloc(F->s.flen ? F->s.flen : 1);
                rc = liberasurecode_reconstruct_fragment(L->desc, lst, cnt, F->s.flen, (int)rng_below(&r, (uint32_t)n), o);
                rc_hist("reconstruct_foreign", rc);
                free(o);
                liberasurecode_verify_stripe_metadata(L->desc, lst, cnt);
                is_invalid_fragment(L->desc, lst[0]);
                mon_count("history_foreign_fragment_steps", 1);
            } break;
            case O_SIZES: liberasurecode_get_fragment_size(L->desc, (int)rng_below(&r, 100000)); liberasurecode_get_aligned_data_size(L->desc, rng_below(&r, 100000)); liberasurecode_get_minimum_encode_size(L->desc); break;
            case O_INVALID_ARG: {
                int w = (int)rng_below(&r, 8); char *out = NULL; uint64_t ol = 0; char **ed = NULL, **ep = NULL; uint64_t fl;
                for (int i = 0; i < n; i++) lst[cnt++] = (char *)L->s.frag[i];
                int rc = 0;
                switch (w) {
                case 0: rc = liberasurecode_decode(L->desc, NULL, n, L->s.flen, 0, &out, &ol); break;
                case 1: rc = liberasurecode_decode(L->desc, lst, n, 10, 0, &out, &ol); break;
                case 2: rc = liberasurecode_decode(L->desc, lst, n, L->s.flen, 1, NULL, &ol); break;
                case 3: rc = liberasurecode_encode(L->desc, NULL, 10, &ed, &ep, &fl); break;
                case 4: rc = liberasurecode_encode(L->desc + 777, (char *)L->data, L->s.len, &ed, &ep, &fl); break;
                case 5: rc = liberasurecode_reconstruct_fragment(L->desc, lst, n, 10, 0, (char *)lst); break;
                case 6: rc = liberasurecode_reconstruct_fragment(L->desc, lst, n - 1, L->s.flen, 0, NULL); break;
                case 7: rc = liberasurecode_fragments_needed(L->desc, NULL, NULL, NULL); break;
                }
                rc_hist("invalid_arg_call", rc);
            } break;
            }
            for (int i = 0; i < ntmp; i++) free(tmp[i]);
            for (int i = 0; i < nmis; i++) free(misb[i]);
#undef MISALIGN_SOME
        }
        mon_count("evaluations", 1); mon_count("history_steps", 1);
        if (expect_zero) q_zero(&q, "C16", what);
    }
    for (int i = 0; i < NSLOT; i++) if (live[i]) live_close(&S[i]);
    q_delta(&q0, "C16", "end of history (all instances destroyed, all outputs cleaned up)", 0, 1);
}

/* systematic part: every erasure set within tolerance of every flat-XOR table (each of the ten
 * failure-pattern branches, incl. the three-data P xor Q path that allocates a temporary) and of a
 * spread of RS / ISA-L shapes, decode + reconstruct under the conservation monitor */
static void run_leaks_systematic(void)
{
    static cfg_t cfgs[400]; int nc = cfgs_xor(cfgs, 400);
    nc += cfgs_rs(cfgs + nc, 400 - nc, EC_BACKEND_LIBERASURECODE_RS_VAND, 0, MO.seed);
    if (isal_ok) { nc += cfgs_rs(cfgs + nc, 400 - nc, EC_BACKEND_ISA_L_RS_VAND, 0, MO.seed); nc += cfgs_rs(cfgs + nc, 400 - nc, EC_BACKEND_ISA_L_RS_CAUCHY, 0, MO.seed); }
    for (int ci = 0; ci < nc; ci++) {
        cfg_t c = cfgs[ci]; c.ct = (ci & 1) ? CHKSUM_CRC32 : CHKSUM_NONE;
        int n = c.k + c.m, tol = cfg_tol(&c);
        live_t L; int ok = 0;
        char ck[96]; cfg_key(&c, ck, sizeof ck);
        if (mon_case_all("%s|systematic-setup", ck)) { ok = live_open(&L, &c, (uint64_t)c.k * 20 + 3, MO.seed) == 0; if (!ok) mon_viol("C16", "setup-failed", "create/encode failed"); ledger_refresh(); mon_end(); }
        if (!ok) continue;
        uint32_t full = n == 32 ? 0xffffffffu : ((1u << n) - 1);
        int exhaustive = c.be == EC_BACKEND_FLAT_XOR_HD || n <= 10;
        int nsets = 0;
        for (int sz = 1; sz <= tol; sz++) {
            int cb[32]; comb_first(cb, sz);
            rng_t r; rng_seed(&r, MO.seed, mon_hash_str(ck, (uint64_t)sz));
            int budget = exhaustive ? 1 << 30 : (MO.thorough ? 400 : 60);
            do {
                int e[32]; memcpy(e, cb, sizeof(int) * (size_t)sz);
                if (!exhaustive) { int perm[32]; for (int i = 0; i < n; i++) perm[i] = i; rng_shuffle(&r, perm, n); memcpy(e, perm, sizeof(int) * (size_t)sz); }
                uint32_t er = mask_of(e, sz);
                char em[128]; mask_str(er, n, em, sizeof em);
                if (mon_case("%s|systematic|E=%s", ck, em)) {
                    qp_t q; q_begin(&q);
                    char *lst[64]; int cnt = 0;
                    void *misb[64]; int nmis = 0;
                    for (int i = 0; i < n; i++) if (!((er >> i) & 1)) {
                        lst[cnt] = (char *)L.s.frag[i];
                        /* every other erasure set: data and parity fragments at odd addresses (library-private aligned copies) */
                        if ((nsets & 1) && ((i + nsets / 2) % 3 != 0)) { void *b_ = NULL; if (posix_memalign(&b_, 16, L.s.flen + 16)) abort(); int o_ = 1 + (i * 5 + nsets) % 15;
                            memcpy((char *)b_ + o_, L.s.frag[i], L.s.flen); lst[cnt] = (char *)b_ + o_; misb[nmis++] = b_; }
                        cnt++;
                    }
                    if (nmis) mon_count("systematic_sets_with_misaligned_fragments", 1);
                    char *out = NULL; uint64_t ol = 0;
                    int rc = liberasurecode_decode(L.desc, lst, cnt, L.s.flen, sz & 1, &out, &ol);
                    if (rc == 0) liberasurecode_decode_cleanup(L.desc, out);
                    char *o = malloc(L.s.flen);
                    for (int i = 0; i < sz; i++) liberasurecode_reconstruct_fragment(L.desc, lst, cnt, L.s.flen, e[i], o);
                    free(o);
                    for (int i = 0; i < nmis; i++) free(misb[i]);
                    mon_count("evaluations", 1 + sz); mon_count("systematic_sets", 1);
                    q_zero(&q, "C16", "decode+cleanup and reconstruct of an erasure set within tolerance");
                    mon_distinct("nontrivial", mon_hash_u64(er, mon_hash_str(ck, 161)));
                    if (++nsets % 64 == 0) q_leakcheck("C16", "systematic erasure sets");
                    mon_end();
                }
                (void)full;
                if (!exhaustive && --budget <= 0) break;
            } while (exhaustive ? comb_next(cb, sz, n) : 1);
        }
        if (mon_case_all("%s|systematic-teardown", ck)) { live_close(&L); q_leakcheck("C16", "after destroying the instance"); mon_end(); }
    }
}

static void run_leaks(void)
{
    ledger_refresh();
    /* warm-up so that lazily created libc/ld.so state is not attributed to a history */
    { cfg_t c = { EC_BACKEND_LIBERASURECODE_RS_VAND, 2, 1, 1, 0, CHKSUM_CRC32 }; live_t L; if (live_open(&L, &c, 10, 1) == 0) live_close(&L);
      if (isal_ok) { cfg_t c2 = { EC_BACKEND_ISA_L_RS_VAND, 2, 1, 1, 0, CHKSUM_CRC32 }; if (live_open(&L, &c2, 10, 1) == 0) live_close(&L); }
      ledger_refresh(); }
    int nh = MO.thorough ? 40000 : 480;
    for (int h = 0; h < nh; h++) {
        rng_t r; rng_seed(&r, MO.seed, 0x16500 + (uint64_t)h);
        int len = 20 + (int)rng_below(&r, 281);
        if (!mon_case("history#%d|len=%d", h, len)) continue;
        run_history_ops(h, len);
        mon_distinct("nontrivial", mon_hash_u64((uint64_t)h, MO.seed));
        mon_count("histories", 1);
        if (h % 16 == 0) q_leakcheck("C16", "after history");
        if (h % 211 == 0) mon_sample("{\"history\":%d,\"length\":%d,\"ops\":\"random over create/destroy/encode/decode(ok,too-few,unrecoverable,dup,bad-header,resealed)/reconstruct(ok,too-few,bad-dest)/needed/metadata/validate/invalid-arg/bad-create/sizes\"}", h, len);
        mon_end();
    }
    run_leaks_systematic();
    helper_thread_destroy_rounds("C16");     /* use after a destroy that came from another thread: refused, no freed memory touched */
    if (mon_case_all("final-leakcheck")) { q_leakcheck("C16", "end of all histories"); mon_end(); }
}


/* ================================================================ C16: allocation-failure enumeration
 * (fault_enumeration inside C16; LEDGER builds only).  For each operation of a scripted workload the
 * number A of allocations the library makes is measured, then the operation is repeated A times with
 * the n-th library allocation failing (malloc/calloc/posix_memalign return NULL/ENOMEM once).
 * Judged: a call that reports an error keeps nothing allocated (ledger delta 0: the error exits of
 * encode/decode/reconstruct/create free exactly what they allocated, nothing twice); a call that still
 * reports success returned exact results; the next identical call works; everything is back to the
 * baseline after destroy.  A NULL dereference caused by an unchecked allocation is *not* something
 * C16 speaks about (it is neither a leak nor a double free nor a use of freed memory): such faults are
 * counted (oom_unchecked_alloc_faults) and not reported. */
extern long ledger_fail_seen(void);
typedef struct { int kind; uint32_t erased; int dest; int mis; int force; const char *name; } oop_t;

static int oom_only_kind = -1;            /* -1: every operation (C16's run); 0 / 2: encode / reconstruct operations only, judged under the calling property (C15 / C03) */
#define OOM_LP (oom_only_kind < 0 ? "C16" : PROP)
#define OOM_LW (oom_only_kind < 0 ? "C02" : PROP)
static int oom_do(live_t *L, const oop_t *o, int *exact)
{
    int n = L->s.n, k = L->c.k, rc = 0;
    *exact = 1;
    char *lst[64]; void *base[64]; int cnt = 0;
    for (int i = 0; i < n && o->kind != 0; i++) {
        if ((o->erased >> i) & 1) continue;
        base[cnt] = NULL;
        if (o->mis) { uint8_t *b = NULL; if (posix_memalign((void **)&b, 16, L->s.flen + 16)) abort(); memcpy(b + 1 + (i % 7), L->s.frag[i], L->s.flen); base[cnt] = b; lst[cnt] = (char *)b + 1 + (i % 7); }
        else lst[cnt] = (char *)L->s.frag[i];
        cnt++;
    }
    switch (o->kind) {
    case 0: { /* the output variables still hold what they held before the call - NULL, or (o->mis) the arrays of an earlier
               * stripe which the caller has not released yet, here blocks of the harness filled with a pattern: a failing
               * encode leaves them to the caller, whose release of them afterwards is the only one */
              char **ed = NULL, **ep = NULL; uint64_t fl = 0; char **pd = NULL, **pp = NULL;
              if (o->mis) { pd = malloc(sizeof(char *) * 32); pp = malloc(sizeof(char *) * 32);
                            for (int i = 0; i < 32; i++) { pd[i] = malloc(96); memset(pd[i], 0x6B, 96); pp[i] = malloc(96); memset(pp[i], 0x6B, 96); }
                            ed = pd; ep = pp; }
              rc = liberasurecode_encode(L->desc, (char *)L->data, L->s.len, &ed, &ep, &fl);
              if (rc == 0) { if (fl != L->s.flen) *exact = 0; else for (int i = 0; i < n; i++) if (memcmp(L->s.frag[i], i < k ? ed[i] : ep[i - k], fl)) *exact = 0;
                             liberasurecode_encode_cleanup(L->desc, ed, ep); }
              if (o->mis) { int touched = 0;
                            for (int i = 0; i < 32; i++) for (int q = 0; q < 96; q++) if (((unsigned char *)pd[i])[q] != 0x6B || ((unsigned char *)pp[i])[q] != 0x6B) touched = 1;
                            if (touched) { mon_viol(OOM_LP, "caller-block-released-or-written", "encode (rc %d) wrote to or released the blocks its output variables pointed to on entry (an earlier stripe of the caller)", rc); *exact = 0; }
                            else { for (int i = 0; i < 32; i++) { free(pd[i]); free(pp[i]); } free(pd); free(pp); } } } break;
    case 1: { char *mine = malloc(48); memset(mine, 0x6B, 48); char *out = mine; uint64_t ol = 0; rc = liberasurecode_decode(L->desc, lst, cnt, L->s.flen, o->force, &out, &ol);
              if (rc == 0) { *exact = ol == L->s.len && !memcmp(out, L->data, L->s.len); if (out != mine) liberasurecode_decode_cleanup(L->desc, out); }
              for (int q = 0; q < 48; q++) if (mine[q] != 0x6B) *exact = 0;          /* the block the output pointer held on entry is the caller's */
              free(mine); } break;
    case 2: { uint8_t *ob = malloc(L->s.flen); memset(ob, 0xCD, L->s.flen); rc = liberasurecode_reconstruct_fragment(L->desc, lst, cnt, L->s.flen, o->dest, (char *)ob);
              if (rc == 0) *exact = !memcmp(ob, L->s.frag[o->dest], L->s.flen); free(ob); } break;
    case 3: { int R[3] = { o->dest, -1, -1 }, X[2] = { n >= 3 ? (o->dest + 1) % n : -1, -1 }, N[40]; rc = liberasurecode_fragments_needed(L->desc, R, X, N); } break;
    case 4: { fragment_metadata_t md; rc = liberasurecode_get_fragment_metadata(lst[0], &md); if (rc == 0) rc = liberasurecode_verify_stripe_metadata(L->desc, lst, cnt);
              if (rc == 0 && is_invalid_fragment(L->desc, lst[cnt - 1])) *exact = 0; } break;
    }
    for (int i = 0; i < cnt; i++) free(base[i]);
    return rc;
}

typedef struct { live_t *L; const oop_t *op; long nth; int rc0; const cfg_t *c; uint64_t len; live_t *L2; ledger_t base; int have_base; stripe_t *small; uint8_t *small_data; } oomarg_t;
#define OOM_FIRED 1
#define OOM_SUCCEEDED 2
#define OOM_ERROR 4

/* decode of a second, much smaller stripe of the same instance with the same erasure set (what the instance keeps between
 * calls was sized by another stripe) */
static void oom_small_decode(oomarg_t *a, const char *when)
{
    stripe_t *t = a->small; char *lst[64]; int cnt = 0;
    for (int i = 0; i < t->n; i++) if (!((a->op->erased >> i) & 1)) lst[cnt++] = (char *)t->frag[i];
    char *out = NULL; uint64_t ol = 0;
    int rc = liberasurecode_decode(a->L->desc, lst, cnt, t->flen, a->op->force, &out, &ol);
    if (rc != 0 || ol != t->len || memcmp(out, a->small_data, t->len)) mon_viol("C16", "oom-other-stripe-differs", "%s: decode of a smaller stripe of the same instance %s: rc=%d, %s", a->op->name, when, rc, rc ? "failed" : "wrong bytes");
    if (rc == 0) liberasurecode_decode_cleanup(a->L->desc, out);
}

/* child: one operation on the live instance with its nth library allocation failing */
static int oom_child_op(void *v)
{
    oomarg_t *a = v; live_t *L = a->L; int ex, fl = 0;
    if (a->small) oom_small_decode(a, "before the faulted call");
    qp_t q; q_begin(&q);
    ledger_fail_arm(a->nth); int rc = oom_do(L, a->op, &ex); long fired = ledger_fail_disarm();
    mon_child_phase = 1;                     /* the injected call is over: from here on no fault is excusable */
    if (a->c->be == EC_BACKEND_NULL) ex = 1;
    if (fired) fl |= OOM_FIRED;
    if (rc > 0) mon_viol(OOM_LP, "oom-positive-rc", "%s returned %d when allocation #%ld failed", a->op->name, rc, a->nth);
    if (rc == 0) { fl |= OOM_SUCCEEDED; if (!ex) mon_viol(OOM_LW, "oom-success-with-wrong-result", "%s reported success with wrong bytes when its allocation #%ld failed", a->op->name, a->nth); }
    else fl |= OOM_ERROR;
    q_zero(&q, OOM_LP, "call during which an allocation failed (after its cleanup call if it succeeded)");
    /* next identical call behaves normally */
    int rc2 = oom_do(L, a->op, &ex);
    if (a->c->be == EC_BACKEND_NULL) ex = 1;
    if (rc2 != a->rc0 || !ex) mon_viol(OOM_LP, "oom-next-call-differs", "%s after a call that hit an allocation failure: rc=%d (normally %d) exact=%d", a->op->name, rc2, a->rc0, ex);
    q_zero(&q, OOM_LP, "follow-up call");
    if (a->small) { oom_small_decode(a, "after the faulted call"); rc2 = oom_do(L, a->op, &ex); if (rc2 != a->rc0 || !ex) mon_viol(OOM_LP, "oom-next-call-differs", "%s, second follow-up after a smaller stripe: rc=%d exact=%d", a->op->name, rc2, ex); q_zero(&q, OOM_LP, "second follow-up call"); }
    /* and the instance can be destroyed with everything returned */
    qp_t q2; q_begin(&q2);
    int d = L->desc; L->desc = -1;
    if (liberasurecode_instance_destroy(d) != 0) mon_viol(OOM_LP, "oom-destroy-failed", "destroy after an allocation failure in %s failed", a->op->name);
    q_delta(&q2, OOM_LP, "destroy after the faulted call", -1, 0);
    return fl;
}

/* child: create with its nth library allocation failing */
static const char *OOM_PROP = "C16";     /* C14 reuses the create enumeration (siblings alive) under its own id */
static int oom_child_create(void *v)
{
    oomarg_t *a = v; const cfg_t *c = a->c; int fl = 0;
    qp_t q; q_begin(&q); int before = registry_len();
    ledger_fail_arm(a->nth); int d = lec_create(c); long fired = ledger_fail_disarm();
    mon_child_phase = 1;
    if (fired) fl |= OOM_FIRED;
    /* a live sibling of the same backend (shares the GF tables / plugin handle) is unaffected by whatever happened */
    if (a->L && a->L->desc > 0) live_roundtrip(a->L, OOM_PROP, "sibling instance after a create that hit an allocation failure", 1);
    if (a->L2 && a->L2->desc > 0) live_roundtrip(a->L2, OOM_PROP, "second sibling instance after a create that hit an allocation failure", 0);
    if (d > 0) {
        fl |= OOM_SUCCEEDED;
        live_t L; memset(&L, 0, sizeof L); L.c = *c; cfg_key(c, L.ck, sizeof L.ck); L.desc = d; code_init(&L.cd, c);
        rng_t r; rng_seed(&r, MO.seed, a->len); L.data = malloc(a->len); rng_fill(&r, L.data, a->len);
        if (stripe_make(&L.s, d, c, L.data, a->len) != 0) mon_viol(OOM_PROP, "oom-create-succeeded-but-unusable", "create returned %d although allocation #%ld failed, and the instance cannot encode", d, a->nth);
        else live_roundtrip(&L, OOM_PROP, "instance created while an allocation failed", 0);
        live_close(&L);
        q_delta(&q, OOM_PROP, "create (allocation failure tolerated) + use + destroy", 0, 1);
    } else {
        fl |= OOM_ERROR;
        if (d == 0) mon_viol(OOM_PROP, "oom-create-returned-zero", "create returned 0 when allocation #%ld failed", a->nth);
        q_zero(&q, OOM_PROP, "create that failed because an allocation failed");
        if (registry_len() != before) mon_viol(OOM_PROP, "oom-create-registered", "registry length changed from %d to %d although create failed", before, registry_len());
    }
    /* next create works, and everything is returned after its destroy */
    { live_t L; if (live_open(&L, c, a->len, MO.seed) != 0) mon_viol(OOM_PROP, "oom-next-create-failed", "create after a create that hit an allocation failure does not work");
      else { live_roundtrip(&L, OOM_PROP, "create after failed create", 0); live_close(&L); } }
    q_delta(&q, OOM_PROP, "after the follow-up create/destroy", 0, 1);
    if (a->L && !a->L2 && a->L->desc > 0 && a->have_base) {
        /* (in this child only) the one sibling goes away too: with no instance left, everything the library ever allocated is
         * back - in particular what instances of one backend share (GF tables, plugin handle) and a failed create may have pinned */
        int d1 = a->L->desc; a->L->desc = -1;
        if (liberasurecode_instance_destroy(d1) != 0) mon_viol(OOM_PROP, "destroy-failed", "destroy of the sibling after a create that hit an allocation failure failed");
        qp_t qb; qb.l = a->base;
        q_delta(&qb, OOM_PROP, "after the last instance was destroyed (baseline taken before any instance existed)", 0, 1);
    }
    if (a->L && a->L2 && a->L->desc > 0 && a->L2->desc > 0) {
        /* (in this child only) the siblings go away one after the other, in an order that depends on the case; the survivor keeps working */
        live_t *first = (a->nth & 1) ? a->L : a->L2, *second = (a->nth & 1) ? a->L2 : a->L;
        int d1 = first->desc; first->desc = -1;
        if (liberasurecode_instance_destroy(d1) != 0) mon_viol(OOM_PROP, "destroy-failed", "destroy of a sibling after a create that hit an allocation failure failed");
        live_roundtrip(second, OOM_PROP, "surviving sibling after the other one was destroyed", 2);
        int d2 = second->desc; second->desc = -1;
        if (liberasurecode_instance_destroy(d2) != 0) mon_viol(OOM_PROP, "destroy-failed", "destroy of the last sibling failed");
        if (registry_len() != a->rc0) mon_viol(OOM_PROP, "registry-length", "registry holds %d instances after all siblings were destroyed, expected %d", registry_len(), a->rc0);
        if (a->have_base) { qp_t qb; qb.l = a->base; q_delta(&qb, OOM_PROP, "after all instances were destroyed (baseline taken before any instance existed)", 0, 1); }
    }
    return fl;
}

static void oom_account(const mon_child_t *ch, const char *what, long nth)
{
    mon_count("evaluations", 1);
    if (ch->faulted) {
        if (ch->nullpage && ch->sig == 11 && ch->phase == 0) {
            /* NULL-page dereference of the allocation that was made to fail: an unchecked malloc, which no
             * property speaks about (not a leak, double free or use of freed memory): counted, not reported */
            char nm[128]; snprintf(nm, sizeof nm, "oom_null_deref_in_%s", ch->site);
            mon_count("oom_unchecked_alloc_null_deref", 1); mon_count(nm, 1);
        } else {
            char kind[160]; snprintf(kind, sizeof kind, "crash:signal:%d@%s", ch->sig, ch->site);
            mon_viol(OOM_PROP, kind, "%s: process faulted (signal %d, %s) in %s %s allocation #%ld was made to fail: wild pointer / freed memory / state left broken by the error exit", what, ch->sig, ch->nullpage ? "NULL page" : "not a NULL-page access", ch->site, ch->phase ? "in a LATER call, after" : "when", nth);
        }
        return;
    }
    if (ch->status < 0) { mon_logf("HARNESS forked oom case ended abnormally (status %d)", ch->status); return; }
    if (ch->status & OOM_FIRED) mon_count("oom_injections", 1);
    if (ch->status & OOM_SUCCEEDED) mon_count("oom_call_still_succeeded", 1);
    if (ch->status & OOM_ERROR) mon_count("oom_call_reported_error", 1);
}

static void run_oom(void)
{
    ledger_refresh();
    if (!ledger_available()) { mon_logf("HARNESS oom mode needs the ledger build"); return; }
    static const cfg_t pool[] = { { EC_BACKEND_LIBERASURECODE_RS_VAND, 4, 2, 2, 0, CHKSUM_CRC32 }, { EC_BACKEND_FLAT_XOR_HD, 10, 5, 3, 0, CHKSUM_NONE }, { EC_BACKEND_FLAT_XOR_HD, 6, 6, 4, 0, CHKSUM_CRC32 },
                                  { EC_BACKEND_NULL, 4, 2, 2, 0, CHKSUM_CRC32 }, { EC_BACKEND_ISA_L_RS_VAND, 4, 2, 2, 0, CHKSUM_CRC32 }, { EC_BACKEND_ISA_L_RS_CAUCHY, 5, 3, 3, 0, CHKSUM_NONE },
                                  { EC_BACKEND_LIBERASURECODE_RS_VAND, 10, 4, 4, 0, CHKSUM_NONE }, { EC_BACKEND_FLAT_XOR_HD, 10, 5, 4, 0, CHKSUM_CRC32 },
                                  { EC_BACKEND_LIBERASURECODE_RS_VAND, 1, 1, 1, 0, CHKSUM_CRC32 }, { EC_BACKEND_FLAT_XOR_HD, 20, 6, 4, 0, CHKSUM_NONE },
                                  { EC_BACKEND_JERASURE_RS_VAND, 4, 2, 2, 0, CHKSUM_CRC32 }, { EC_BACKEND_JERASURE_RS_CAUCHY, 3, 2, 2, 0, CHKSUM_NONE }, { EC_BACKEND_LIBPHAZR, 4, 2, 1, 0, CHKSUM_CRC32 }, { EC_BACKEND_SHSS, 4, 2, 2, 0, CHKSUM_CRC32 } };
    /* warm-up (lazy libc / ld.so state) */
    { cfg_t c = pool[0]; live_t L; if (live_open(&L, &c, 10, 1) == 0) live_close(&L); if (isal_ok) { cfg_t c2 = pool[4]; if (live_open(&L, &c2, 10, 1) == 0) live_close(&L); } ledger_refresh(); }
    int npool = (int)(sizeof pool / sizeof pool[0]);
    for (int pi = 0; pi < npool; pi++) {
        cfg_t c = pool[pi];
        if (!isal_ok && (c.be == EC_BACKEND_ISA_L_RS_VAND || c.be == EC_BACKEND_ISA_L_RS_CAUCHY)) continue;
        if (!jer_ok && IS_JER(c.be)) continue;
        if (!phazr_ok && c.be == EC_BACKEND_LIBPHAZR) continue;
        if (!shss_ok && c.be == EC_BACKEND_SHSS) continue;
        char ck[96]; cfg_key(&c, ck, sizeof ck);
        int n = c.k + c.m, k = c.k, tol = cfg_tol(&c);
        uint64_t len = (uint64_t)k * 37 + 5;
        /* the live instance: sibling for the create enumeration, subject of the operation enumeration.  Created by every
         * shard and after every restart (never inside a case) */
        live_t L;
        ledger_t base0; ledger_get(&base0);
        if (live_open(&L, &c, len, MO.seed) != 0) { if (mon_case_all("%s|oom|setup", ck)) { mon_viol("C16", "setup-failed", "create/encode failed"); mon_end(); } continue; }
        ledger_refresh();
        /* ---- create under allocation failure ---- */
        long Acreate = 0;
        { ledger_fail_arm(1L << 40); int d = lec_create(&c); Acreate = ledger_fail_seen(); ledger_fail_disarm(); if (d > 0) liberasurecode_instance_destroy(d); ledger_refresh(); }
        mon_count0("oom_alloc_sites_enumerated", Acreate);
        for (long nth = 1; nth <= Acreate && oom_only_kind < 0; nth++) {
            if (!mon_case("%s|oom|create|alloc#%ld", ck, nth)) continue;
            oomarg_t a = { &L, NULL, nth, 0, &c, len, NULL, base0, 1 }; mon_child_t ch;
            if (mon_fork_run(oom_child_create, &a, &ch) != 0) mon_logf("HARNESS fork failed");
            else oom_account(&ch, "create", nth);
            mon_distinct("nontrivial", mon_hash_u64((uint64_t)nth, mon_hash_str(ck, 160)));
            if (nth == 1) mon_sample("{\"config\":\"%s\",\"operation\":\"create\",\"library_allocations_in_this_call\":%ld,\"each_failed_once\":true}", ck, Acreate);
            mon_end();
        }
        /* ---- operations on a live instance ---- */
        oop_t ops[32]; int no = 0;
        uint32_t d0 = 1u, d01 = 3u, p0 = 1u << k;
        ops[no++] = (oop_t){ 0, 0, 0, 0, 0, "encode" };
        ops[no++] = (oop_t){ 0, 0, 0, 1, 0, "encode-outputs-still-holding-an-earlier-stripe" };
        ops[no++] = (oop_t){ 1, 0, 0, 0, 0, "decode-fastpath" };
        ops[no++] = (oop_t){ 1, 0, 0, 1, 0, "decode-fastpath-misaligned" };
        ops[no++] = (oop_t){ 1, 0, 0, 1, 1, "decode-fastpath-misaligned-forced" };
        if (tol >= 1) { ops[no++] = (oop_t){ 1, d0, 0, 0, 0, "decode-1data" }; ops[no++] = (oop_t){ 1, d0, 0, 1, 1, "decode-1data-misaligned-forced" };
                        ops[no++] = (oop_t){ 1, p0, 0, 1, 0, "decode-1parity-misaligned" };
                        ops[no++] = (oop_t){ 2, d0, 0, 0, 0, "reconstruct-data" }; ops[no++] = (oop_t){ 2, d0, 0, 1, 0, "reconstruct-data-misaligned" };
                        ops[no++] = (oop_t){ 2, p0, k, 1, 0, "reconstruct-parity-misaligned" }; ops[no++] = (oop_t){ 2, p0, 0, 0, 0, "reconstruct-available" }; }
        if (tol >= 2) { ops[no++] = (oop_t){ 1, d01, 0, 1, 0, "decode-2data-misaligned" }; ops[no++] = (oop_t){ 1, d0 | p0, 0, 0, 1, "decode-data+parity-forced" };
                        ops[no++] = (oop_t){ 2, d0 | p0, k, 0, 0, "reconstruct-parity-with-data-lost" }; ops[no++] = (oop_t){ 2, d01, 1, 1, 0, "reconstruct-data-2lost-misaligned" }; }
        if (tol >= 3) { ops[no++] = (oop_t){ 1, 7u, 0, 0, 0, "decode-3data" }; ops[no++] = (oop_t){ 2, 7u, 2, 1, 0, "reconstruct-3lost-misaligned" }; }
        /* flat-XOR hd=4: a data triple that no parity isolates (the P xor Q branch, which keeps a scratch buffer per call
         * sized by the stripe); run after the same decode of a much smaller stripe */
        int pq_op = -1; stripe_t small; uint8_t *small_data = NULL; memset(&small, 0, sizeof small);
        if (c.be == EC_BACKEND_FLAT_XOR_HD && c.hd == 4 && L.cd.xt) {
            uint32_t t3 = 0;
            for (int a1 = 0; a1 < k && !t3; a1++) for (int b1 = a1 + 1; b1 < k && !t3; b1++) for (int c1 = b1 + 1; c1 < k && !t3; c1++) {
                uint32_t t = 1u << a1 | 1u << b1 | 1u << c1; int iso = 0;
                for (int p = 0; p < c.m; p++) if (__builtin_popcount(L.cd.xt->parity_bms[p] & t) == 1) iso = 1;
                if (!iso) t3 = t;
            }
            if (t3) {
                uint64_t sl = (uint64_t)k + 3; small_data = malloc(sl); rng_t r; rng_seed(&r, MO.seed, 4242); rng_fill(&r, small_data, sl);
                if (stripe_make(&small, L.desc, &c, small_data, sl) == 0) { pq_op = no; ops[no++] = (oop_t){ 1, t3, 0, 0, 0, "decode-3data-PxorQ-after-smaller-stripe" }; ops[no++] = (oop_t){ 1, t3, 0, 1, 1, "decode-3data-PxorQ-misaligned-forced-after-smaller-stripe" }; }
                ops[no++] = (oop_t){ 2, t3, __builtin_ctz(t3), 0, 0, "reconstruct-3data-PxorQ-first" }; ops[no++] = (oop_t){ 2, t3, 31 - __builtin_clz(t3), 1, 0, "reconstruct-3data-PxorQ-last-misaligned" };
                ledger_refresh();
            }
        }
        if (k >= 2) ops[no++] = (oop_t){ 1, ((1u << n) - 1) & ~(1u << (n - 1)), 0, 0, 0, "decode-too-few" };   /* only the last parity present */
        ops[no++] = (oop_t){ 3, 0, 0, 0, 0, "fragments_needed" };
        ops[no++] = (oop_t){ 4, 0, 0, 1, 0, "metadata+validation" };
        for (int oi = 0; oi < no; oi++) {
            int ex; long A; int rc0;
            if (oom_only_kind >= 0 && ops[oi].kind != oom_only_kind) continue;
            { ledger_fail_arm(1L << 40); rc0 = oom_do(&L, &ops[oi], &ex); A = ledger_fail_seen(); ledger_fail_disarm(); }
            mon_count0("oom_alloc_sites_enumerated", A);
            if (c.be == EC_BACKEND_NULL) ex = 1;
            if ((rc0 != 0) != (!strcmp(ops[oi].name, "decode-too-few")) || !ex) { if (mon_case_all("%s|oom|%s|baseline", ck, ops[oi].name)) { mon_viol("C16", "oom-baseline", "operation %s without injection: rc=%d exact=%d", ops[oi].name, rc0, ex); mon_end(); } continue; }
            for (long nth = 1; nth <= A; nth++) {
                if (!mon_case("%s|oom|%s|alloc#%ld", ck, ops[oi].name, nth)) continue;
                oomarg_t a = { &L, &ops[oi], nth, rc0, &c, len }; mon_child_t ch;
                if (pq_op >= 0 && (oi == pq_op || oi == pq_op + 1)) { a.small = &small; a.small_data = small_data; }
                if (mon_fork_run(oom_child_op, &a, &ch) != 0) mon_logf("HARNESS fork failed");
                else oom_account(&ch, ops[oi].name, nth);
                mon_distinct("nontrivial", mon_hash_u64((uint64_t)nth * 64 + (uint64_t)oi, mon_hash_str(ck, 162)));
                if (nth == 1) mon_sample("{\"config\":\"%s\",\"operation\":\"%s\",\"library_allocations_in_this_call\":%ld,\"each_failed_once\":true}", ck, ops[oi].name, A);
                mon_end();
            }
        }
        if (small_data) { stripe_free(&small); free(small_data); }
        live_close(&L);
    }
}


/* C14: a create that fails half-way (allocation failure at every allocation site of create, injected through the ledger's
 * failpoint) while one or two instances of the same backend are alive: "a failed create leaves no instance behind" and
 * "operations on one instance never change the behaviour of another", incl. the shared GF tables / plugin handle */
static void run_registry_oomcreate(const char *prop)
{
    ledger_refresh();
    if (!ledger_available()) { mon_logf("HARNESS oomcreate mode needs the ledger build"); return; }
    OOM_PROP = prop;
    static const cfg_t pool[] = { { EC_BACKEND_LIBERASURECODE_RS_VAND, 4, 2, 2, 0, CHKSUM_CRC32 }, { EC_BACKEND_LIBERASURECODE_RS_VAND, 10, 4, 4, 0, CHKSUM_NONE }, { EC_BACKEND_FLAT_XOR_HD, 10, 5, 3, 0, CHKSUM_CRC32 },
                                  { EC_BACKEND_ISA_L_RS_VAND, 4, 2, 2, 0, CHKSUM_CRC32 }, { EC_BACKEND_ISA_L_RS_CAUCHY, 5, 3, 3, 0, CHKSUM_NONE }, { EC_BACKEND_NULL, 4, 2, 2, 0, CHKSUM_NONE }, { EC_BACKEND_FLAT_XOR_HD, 6, 6, 4, 0, CHKSUM_NONE },
                                  { EC_BACKEND_JERASURE_RS_VAND, 4, 2, 2, 0, CHKSUM_CRC32 }, { EC_BACKEND_JERASURE_RS_CAUCHY, 2, 1, 1, 0, CHKSUM_NONE }, { EC_BACKEND_LIBPHAZR, 4, 2, 1, 0, CHKSUM_CRC32 } };
    { cfg_t c = pool[0]; live_t L; if (live_open(&L, &c, 10, 1) == 0) live_close(&L); if (isal_ok) { cfg_t c2 = pool[3]; if (live_open(&L, &c2, 10, 1) == 0) live_close(&L); } ledger_refresh(); }
    for (size_t pi = 0; pi < sizeof pool / sizeof pool[0]; pi++) {
        cfg_t c = pool[pi];
        if (!isal_ok && (c.be == EC_BACKEND_ISA_L_RS_VAND || c.be == EC_BACKEND_ISA_L_RS_CAUCHY)) continue;
        if (!jer_ok && IS_JER(c.be)) continue;
        if (!phazr_ok && c.be == EC_BACKEND_LIBPHAZR) continue;
        char ck[96]; cfg_key(&c, ck, sizeof ck);
        for (int nsib = 1; nsib <= 2; nsib++) {
            cfg_t c2 = c; if (c.be == EC_BACKEND_LIBERASURECODE_RS_VAND) { c2.k = 3; c2.m = 3; c2.hd = 3; }       /* second sibling: same backend, other shape where there is one */
            live_t L, L2; memset(&L2, 0, sizeof L2); L2.desc = -1;
            int base = registry_len();
            ledger_t base0; ledger_get(&base0);
            if (live_open(&L, &c, (uint64_t)c.k * 29 + 7, MO.seed) != 0) continue;
            if (nsib == 2 && live_open(&L2, &c2, (uint64_t)c2.k * 31 + 3, MO.seed + 1) != 0) { live_close(&L); continue; }
            ledger_refresh();
            long A = 0;
            { ledger_fail_arm(1L << 40); int d = lec_create(&c); A = ledger_fail_seen(); ledger_fail_disarm(); if (d > 0) liberasurecode_instance_destroy(d); ledger_refresh(); }
            for (long nth = 1; nth <= A; nth++) {
                if (!mon_case("%s|oomcreate|siblings=%d|alloc#%ld", ck, nsib, nth)) continue;
                oomarg_t a = { &L, NULL, nth, base, &c, (uint64_t)c.k * 37 + 5, nsib == 2 ? &L2 : NULL, base0, 1 }; mon_child_t ch;
                if (mon_fork_run(oom_child_create, &a, &ch) != 0) mon_logf("HARNESS fork failed");
                else oom_account(&ch, "create with live siblings", nth);
                mon_distinct("nontrivial", mon_hash_u64((uint64_t)nth * 4 + (uint64_t)nsib, mon_hash_str(ck, 141)));
                if (nth == 1) mon_sample("{\"config\":\"%s\",\"live_siblings\":%d,\"library_allocations_in_create\":%ld,\"each_failed_once\":true}", ck, nsib, A);
                mon_end();
            }
            if (L2.desc > 0) live_close(&L2);
            live_close(&L);
        }
    }
}

/* ================================================================ C17 */
static struct ec_backend_op_stubs real_ops, stub_ops;
static long op_calls[6];            /* encode decode reconstruct fragments_needed init exit */
static int fail_op = -1; static long fail_at = -1; static int fired;
static const char *opn[] = { "encode", "decode", "reconstruct", "fragments_needed", "init", "isal-matrix-inversion" };
static int *isal_failat; static long *isal_calls;     /* failpoint of the reference libisal: the n-th gf_invert_matrix reports failure */

static int st_encode(void *d, char **a, char **b, int bs) { if (fail_op == 0 && ++op_calls[0] == fail_at) { fired = 1; return -1; } return real_ops.encode(d, a, b, bs); }
static int st_decode(void *d, char **a, char **b, int *mi, int bs) { if (fail_op == 1 && ++op_calls[1] == fail_at) { fired = 1; return -1; } return real_ops.decode(d, a, b, mi, bs); }
static int st_recon(void *d, char **a, char **b, int *mi, int di, int bs) { if (fail_op == 2 && ++op_calls[2] == fail_at) { fired = 1; return -1; } return real_ops.reconstruct(d, a, b, mi, di, bs); }
static int st_needed(void *d, int *a, int *b, int *c) { if (fail_op == 3 && ++op_calls[3] == fail_at) { fired = 1; return -1; } return real_ops.fragments_needed(d, a, b, c); }
static void *st_init(struct ec_backend_args *args, void *so) { if (fail_op == 4 && ++op_calls[4] == fail_at) { fired = 1; return NULL; } return real_ops.init(args, so); }

static struct ec_backend_common *common_of(int be)
{
    switch (be) {
    case EC_BACKEND_NULL: return &backend_null; case EC_BACKEND_FLAT_XOR_HD: return &backend_flat_xor_hd; case EC_BACKEND_ISA_L_RS_VAND: return &backend_isa_l_rs_vand;
    case EC_BACKEND_LIBERASURECODE_RS_VAND: return &backend_liberasurecode_rs_vand; case EC_BACKEND_ISA_L_RS_CAUCHY: return &backend_isa_l_rs_cauchy;
    case EC_BACKEND_SHSS: return &backend_shss;
    case EC_BACKEND_JERASURE_RS_VAND: return &backend_jerasure_rs_vand; case EC_BACKEND_JERASURE_RS_CAUCHY: return &backend_jerasure_rs_cauchy;
    case EC_BACKEND_LIBPHAZR: return &backend_libphazr;
    }
    return NULL;
}

/* scripted workload; returns number of steps executed. Every public call is checked. */
typedef struct { int kind; uint32_t erased; int dest; } sstep_t;   /* kind: 0 encode 1 decode 2 reconstruct 3 needed */

static int run_script(const cfg_t *c, const sstep_t *sc, int ns, const char *what, int check_ledger)
{
    struct ec_backend_common *cm = common_of(c->be);
    struct ec_backend_op_stubs *orig = cm->ops;
    real_ops = *orig; stub_ops = *orig;
    stub_ops.encode = st_encode; stub_ops.decode = st_decode; stub_ops.reconstruct = st_recon; stub_ops.fragments_needed = st_needed; stub_ops.init = st_init;
    cm->ops = &stub_ops;                /* instances copy `common` at create time and therefore use the stubs */
    qp_t q0; q_begin(&q0);
    int before_reg = registry_len();
    qp_t q; q_begin(&q);
    if (isal_failat) *isal_failat = fail_op == 5 ? (int)fail_at : 0;
    int desc = lec_create(c);
    cm->ops = orig;
    mon_count("evaluations", 1);
    if (fail_op == 4 && fired) {
        mon_count("injected_failures", 1);
        if (desc >= 0) mon_viol("C17", "init-failure-not-reported", "%s: backend init failed (injected) but create returned %d", what, desc);
        if (check_ledger) q_zero(&q, "C17", "create with failing init");
        if (registry_len() != before_reg) mon_viol("C17", "init-failure-registered", "%s: registry length changed from %d to %d although init failed", what, before_reg, registry_len());
        if (desc > 0) liberasurecode_instance_destroy(desc);
        /* the next identical create succeeds */
        fired = 0; fail_at = -1;
        cm->ops = &stub_ops; desc = lec_create(c); cm->ops = orig;
        if (desc <= 0) { mon_viol("C17", "create-after-failed-init", "%s: create after a failed init returned %d", what, desc); return 0; }
    } else if (desc <= 0) { mon_viol("C17", "create-failed", "%s: create returned %d without an injected failure", what, desc); return 0; }
    int n = c->k + c->m, k = c->k;
    uint32_t full = n >= 32 ? 0xffffffffu : (1u << n) - 1;
    uint64_t len = (uint64_t)k * 41 + 3;
    uint8_t *data = malloc(len); rng_t r; rng_seed(&r, MO.seed, 0x17000); rng_fill(&r, data, len);
    stripe_t S; memset(&S, 0, sizeof S);
    int have = 0;
    for (int st = 0; st < ns; st++) {
        for (int attempt = 0; attempt < 2; attempt++) {
            fired = 0;
            q_begin(&q);
            int rc = 0, exact = 1;
            char *lst[64]; int cnt = 0;
            int fa0 = isal_failat ? *isal_failat : 0;
            if (sc[st].kind != 0 && !have) break;
            for (int i = 0; i < n && sc[st].kind != 0; i++) if (!((sc[st].erased >> i) & 1)) lst[cnt++] = (char *)S.frag[i];
            switch (sc[st].kind) {
            case 0: {
                char **ed = NULL, **ep = NULL; uint64_t fl = 0;
                rc = liberasurecode_encode(desc, (char *)data, len, &ed, &ep, &fl);
                if (rc == 0) {
                    if (!have) { S.c = *c; S.n = n; S.flen = fl; S.len = len; S.frag = calloc((size_t)n, sizeof(uint8_t *)); for (int i = 0; i < n; i++) { S.frag[i] = malloc(fl); memcpy(S.frag[i], i < k ? ed[i] : ep[i - k], fl); } have = 1; }
                    else for (int i = 0; i < n; i++) if (memcmp(S.frag[i], i < k ? ed[i] : ep[i - k], fl)) exact = 0;
                    liberasurecode_encode_cleanup(desc, ed, ep);
                }
            } break;
            case 1: { /* the caller's output variables are not empty on entry: they still hold an earlier, unrelated block of the
                       * caller's own (a failing call must not release what it did not allocate) */
                      char *mine = malloc(64); memset(mine, 0x6B, 64); char *out = mine; uint64_t ol = 0x1234;
                      rc = liberasurecode_decode(desc, lst, cnt, S.flen, 0, &out, &ol);
                      if (rc == 0) { exact = ol == len && !memcmp(out, data, len); if (out != mine) liberasurecode_decode_cleanup(desc, out); }
                      for (int q = 0; q < 64; q++) if (mine[q] != 0x6B) { mon_viol("C17", "caller-block-touched", "%s: decode (rc %d) modified or released the block the caller's output pointer held on entry", what, rc); break; }
                      free(mine); } break;
            case 2: { uint8_t *o = malloc(S.flen); rc = liberasurecode_reconstruct_fragment(desc, lst, cnt, S.flen, sc[st].dest, (char *)o);
                      if (rc == 0) exact = !memcmp(o, S.frag[sc[st].dest], S.flen); free(o); } break;
            case 4: { /* decode with the metadata checks forced while the last listed fragment has a damaged payload (set aside
                       * by the checks where the stripe carries checksums): the backend still has to rebuild the lost data */
                      uint8_t *bad = malloc(S.flen); memcpy(bad, lst[cnt - 1], S.flen); if (S.flen > 80) bad[80 + (st % 7)] ^= 0x21; lst[cnt - 1] = (char *)bad;
                      char *out = NULL; uint64_t ol = 0;
                      rc = liberasurecode_decode(desc, lst, cnt, S.flen, 1, &out, &ol);
                      if (rc == 0) { exact = ol == len && !memcmp(out, data, len); liberasurecode_decode_cleanup(desc, out); }
                      if (c->ct != CHKSUM_CRC32 && rc == 0) exact = 1;       /* without checksums the damage goes unnoticed: not this property's subject */
                      free(bad); } break;
            case 3: { int R[2] = { sc[st].dest, -1 }, X[1] = { -1 }, N[40]; rc = liberasurecode_fragments_needed(desc, R, X, N); } break;
            }
            mon_count("evaluations", 1);
            if (fail_op == 5 && isal_failat && fa0 > 0 && *isal_failat == 0) fired = 1;      /* the matrix inversion inside the ISA-L adapter failed during this call */
            if (fired) {
                mon_count("injected_failures", 1);
                if (rc >= 0) mon_viol("C17", "backend-failure-not-reported", "%s: backend %s failed (injected) at script step %d but the public call returned %d", what, opn[fail_op], st, rc);
                if (check_ledger) q_zero(&q, "C17", "public call whose backend operation failed");
                continue;           /* second attempt = the *next identical call*, which must succeed */
            }
            if (rc != 0) mon_viol("C17", attempt ? "next-call-after-failure-failed" : "call-without-failure-failed", "%s: script step %d (kind %d) returned %d", what, st, sc[st].kind, rc);
            else if (!exact && c->be != EC_BACKEND_NULL) mon_viol("C17", attempt ? "next-call-after-failure-wrong" : "call-without-failure-wrong", "%s: script step %d returned wrong bytes", what, st);
            if (attempt) mon_count("next_calls_after_failure_checked", 1);
            break;
        }
    }
    (void)full;
    if (isal_failat) *isal_failat = 0;
    int rc = liberasurecode_instance_destroy(desc);
    if (rc != 0) mon_viol("C17", "destroy-failed", "%s: destroy returned %d", what, rc);
    if (have) { for (int i = 0; i < n; i++) free(S.frag[i]); free(S.frag); }
    free(data);
    if (check_ledger) q_delta(&q0, "C17", "whole scripted workload", 0, 1);
    return ns;
}

static void run_faults(void)
{
    ledger_refresh();
    if (isal_ok) { void *h = dlopen("libisal.so.2", RTLD_NOW); isal_failat = h ? (int *)dlsym(h, "isal_ref_fail_invert_at") : NULL; isal_calls = h ? (long *)dlsym(h, "isal_ref_invert_calls") : NULL; if (!isal_calls) isal_failat = NULL; ledger_refresh(); }
    static const cfg_t pool[] = { { EC_BACKEND_LIBERASURECODE_RS_VAND, 4, 2, 2, 0, CHKSUM_CRC32 }, { EC_BACKEND_FLAT_XOR_HD, 10, 5, 3, 0, CHKSUM_NONE }, { EC_BACKEND_FLAT_XOR_HD, 6, 6, 4, 0, CHKSUM_CRC32 },
                                  { EC_BACKEND_NULL, 4, 2, 2, 0, CHKSUM_CRC32 }, { EC_BACKEND_ISA_L_RS_VAND, 4, 2, 2, 0, CHKSUM_CRC32 }, { EC_BACKEND_ISA_L_RS_CAUCHY, 5, 3, 3, 0, CHKSUM_NONE },
                                  { EC_BACKEND_LIBERASURECODE_RS_VAND, 10, 4, 4, 0, CHKSUM_NONE },
                                  /* more parity than data, k = 1, k = m, widest stripe: loops over k used where m is meant (and vice versa) */
                                  { EC_BACKEND_LIBERASURECODE_RS_VAND, 2, 4, 4, 0, CHKSUM_CRC32 }, { EC_BACKEND_LIBERASURECODE_RS_VAND, 1, 3, 3, 0, CHKSUM_NONE }, { EC_BACKEND_NULL, 3, 7, 7, 0, CHKSUM_NONE },
                                  { EC_BACKEND_ISA_L_RS_CAUCHY, 2, 5, 5, 0, CHKSUM_CRC32 }, { EC_BACKEND_LIBERASURECODE_RS_VAND, 3, 3, 3, 0, CHKSUM_CRC32 }, { EC_BACKEND_LIBERASURECODE_RS_VAND, 12, 20, 20, 0, CHKSUM_NONE },
                                  { EC_BACKEND_FLAT_XOR_HD, 5, 5, 3, 0, CHKSUM_CRC32 }, { EC_BACKEND_SHSS, 4, 2, 2, 0, CHKSUM_CRC32 }, { EC_BACKEND_SHSS, 2, 4, 4, 0, CHKSUM_NONE },
                                  { EC_BACKEND_JERASURE_RS_VAND, 4, 2, 2, 0, CHKSUM_CRC32 }, { EC_BACKEND_JERASURE_RS_VAND, 2, 3, 3, 8, CHKSUM_NONE }, { EC_BACKEND_JERASURE_RS_CAUCHY, 3, 2, 2, 0, CHKSUM_CRC32 },
                                  { EC_BACKEND_LIBPHAZR, 4, 2, 1, 0, CHKSUM_CRC32 }, { EC_BACKEND_LIBPHAZR, 2, 3, 3, 0, CHKSUM_NONE },
                                  /* nearly all of the widest stripe is parity */
                                  { EC_BACKEND_LIBERASURECODE_RS_VAND, 4, 28, 28, 0, CHKSUM_NONE }, { EC_BACKEND_LIBERASURECODE_RS_VAND, 1, 31, 31, 0, CHKSUM_CRC32 }, { EC_BACKEND_ISA_L_RS_CAUCHY, 2, 30, 30, 0, CHKSUM_NONE }, { EC_BACKEND_FLAT_XOR_HD, 20, 6, 4, 0, CHKSUM_NONE } };
    for (size_t pi = 0; pi < sizeof pool / sizeof pool[0]; pi++) {
        cfg_t c = pool[pi];
        if (!isal_ok && (c.be == EC_BACKEND_ISA_L_RS_VAND || c.be == EC_BACKEND_ISA_L_RS_CAUCHY)) continue;
        if (!shss_ok && c.be == EC_BACKEND_SHSS) continue;
        if (!jer_ok && IS_JER(c.be)) continue;
        if (!phazr_ok && c.be == EC_BACKEND_LIBPHAZR) continue;
        char ck[96]; cfg_key(&c, ck, sizeof ck);
        int n = c.k + c.m;
        /* script: encodes, decodes with data loss, reconstructs of data+parity, fragments_needed */
        sstep_t sc[40]; int ns = 0;
        rng_t r; rng_seed(&r, MO.seed, mon_hash_str(ck, 17));
        int tol = cfg_tol(&c);
        sc[ns++] = (sstep_t){ 0, 0, 0 };
        for (int i = 0; i < 5; i++) { uint32_t er = 1u << (i % c.k); if (tol >= 2 && (i & 1)) er |= 1u << (c.k + i % c.m); sc[ns++] = (sstep_t){ 1, er, 0 }; }
        sc[ns++] = (sstep_t){ 0, 0, 0 };
        for (int i = 0; i < 5; i++) { int d = (i & 1) ? c.k + i % c.m : i % c.k; uint32_t er = 1u << d; if (tol >= 2 && i >= 2) er |= 1u << ((d + 1) % n); sc[ns++] = (sstep_t){ 2, er, d }; }
        for (int i = 0; i < 4; i++) sc[ns++] = (sstep_t){ 3, 0, (i * 3) % n };
        sc[ns++] = (sstep_t){ 0, 0, 0 };
        sc[ns++] = (sstep_t){ 1, 1u, 0 };
        /* the fragment with the highest index lost as well: rebuilt alone, and lost together with data fragment 0 */
        sc[ns++] = (sstep_t){ 2, 1u << (n - 1), n - 1 };
        if (tol >= 2) sc[ns++] = (sstep_t){ 1, 1u | 1u << (n - 1), 0 };
        if (tol >= 2 && n - 2 >= c.k) { sc[ns++] = (sstep_t){ 4, 1u, 0 }; if (tol >= 3 && n - 3 >= c.k) sc[ns++] = (sstep_t){ 4, 1u | 1u << (c.k > 1 ? 1 : c.k), 0 }; }
        /* as much lost as the code tolerates: data fragment 0 and the tol-1 highest indexes (on the widest stripes more than
         * twenty fragments: whatever the failure path does with the list of missing indexes meets its longest form) */
        if (tol >= 3) { uint32_t er = 1u; for (int i = 0; i < tol - 1; i++) er |= 1u << (n - 1 - i); sc[ns++] = (sstep_t){ 1, er, 0 }; sc[ns++] = (sstep_t){ 2, er, 0 }; sc[ns++] = (sstep_t){ 2, er, n - 1 }; }
        /* count calls of each op in a fault-free run */
        long total[6] = {0};
        if (mon_case_all("%s|fault-free-script", ck)) {
            fail_op = -1; fail_at = -1; memset(op_calls, 0, sizeof op_calls);
            /* count with a never-firing failpoint per op */
            for (int op = 0; op < 5; op++) { fail_op = op; fail_at = 1000000; memset(op_calls, 0, sizeof op_calls); run_script(&c, sc, ns, "fault-free", 1); total[op] = op_calls[op]; }
            if (isal_failat && (c.be == EC_BACKEND_ISA_L_RS_VAND || c.be == EC_BACKEND_ISA_L_RS_CAUCHY)) { long c0 = *isal_calls; fail_op = -1; run_script(&c, sc, ns, "fault-free", 1); total[5] = *isal_calls - c0; }
            mon_logf("NOTE %s backend-op calls per script: encode=%ld decode=%ld reconstruct=%ld needed=%ld init=%ld", ck, total[0], total[1], total[2], total[3], total[4]);
            mon_end();
        }
        for (int op = 0; op < 6; op++) {
            for (long pos = 1; pos <= total[op]; pos++) {
                if (!mon_case("%s|fail-%s-at-call-%ld", ck, opn[op], pos)) continue;
                fail_op = op; fail_at = pos; fired = 0; memset(op_calls, 0, sizeof op_calls);
                char what[128]; snprintf(what, sizeof what, "%s fails at its call #%ld", opn[op], pos);
                run_script(&c, sc, ns, what, 1);
                mon_distinct("nontrivial", mon_hash_u64((uint64_t)op * 1000 + (uint64_t)pos, mon_hash_str(ck, 18)));
                mon_count("fault_positions", 1);
                if (pos == 1) mon_sample("{\"config\":\"%s\",\"failing_op\":\"%s\",\"positions\":%ld,\"script_steps\":%d}", ck, opn[op], total[op], ns);
                q_leakcheck("C17", what);
                mon_end();
            }
        }
        /* random subsets failing together: several ops fail at random positions within one run */
        int nr = MO.thorough ? 3000 : 20;
        for (int i = 0; i < nr; i++) {
            if (!mon_case("%s|random-fault#%d", ck, i)) continue;
            rng_t rr; rng_case(&rr);
            int op = (int)rng_below(&rr, 5); if (total[op] == 0) op = 0;
            fail_op = op; fail_at = 1 + rng_below(&rr, (uint32_t)(total[op] ? total[op] : 1)); fired = 0; memset(op_calls, 0, sizeof op_calls);
            /* shuffle script order (keep first encode first) */
            sstep_t s2[40]; memcpy(s2, sc, sizeof(sstep_t) * (size_t)ns);
            for (int j = ns - 1; j > 1; j--) { int q = 1 + (int)rng_below(&rr, (uint32_t)j); sstep_t t = s2[j]; s2[j] = s2[q]; s2[q] = t; }
            run_script(&c, s2, ns, "random fault", 1);
            mon_distinct("nontrivial", mon_hash_u64((uint64_t)i + 5000, mon_hash_str(ck, 19)));
            mon_end();
        }
        fail_op = -1;
    }
    /* the backends' OWN init failure exits (not injected at the operation table): parameters the real init refuses,
     * tried right after an instance of the same backend was created and destroyed, so that the descriptor the failing
     * init allocates is a recycled heap chunk holding stale pointers */
    {
        static const struct { cfg_t good, bad; const char *why; } nat[] = {
            { { EC_BACKEND_FLAT_XOR_HD, 10, 5, 3, 0, CHKSUM_CRC32 }, { EC_BACKEND_FLAT_XOR_HD, 4, 4, 3, 0, CHKSUM_CRC32 }, "xor(4,4,3)" },
            { { EC_BACKEND_FLAT_XOR_HD, 6, 6, 4, 0, CHKSUM_NONE }, { EC_BACKEND_FLAT_XOR_HD, 10, 5, 5, 0, CHKSUM_NONE }, "xor(10,5,5)" },
            { { EC_BACKEND_FLAT_XOR_HD, 15, 6, 3, 0, CHKSUM_NONE }, { EC_BACKEND_FLAT_XOR_HD, 16, 6, 3, 0, CHKSUM_NONE }, "xor(16,6,3)" },
            { { EC_BACKEND_ISA_L_RS_VAND, 4, 2, 2, 0, CHKSUM_CRC32 }, { EC_BACKEND_ISA_L_RS_VAND, 4, 2, 2, 64, CHKSUM_CRC32 }, "isa_l_rs_vand w=64" },
            { { EC_BACKEND_ISA_L_RS_VAND, 10, 4, 4, 8, CHKSUM_NONE }, { EC_BACKEND_ISA_L_RS_VAND, 10, 4, 4, 4, CHKSUM_NONE }, "isa_l_rs_vand w=4" },
            { { EC_BACKEND_ISA_L_RS_CAUCHY, 5, 3, 3, 0, CHKSUM_CRC32 }, { EC_BACKEND_ISA_L_RS_CAUCHY, 5, 3, 3, 33, CHKSUM_CRC32 }, "isa_l_rs_cauchy w=33" },
            { { EC_BACKEND_ISA_L_RS_CAUCHY, 2, 5, 5, 16, CHKSUM_NONE }, { EC_BACKEND_ISA_L_RS_CAUCHY, 2, 5, 5, 7, CHKSUM_NONE }, "isa_l_rs_cauchy w=7" },
        };
        for (size_t ni = 0; ni < sizeof nat / sizeof nat[0]; ni++) {
            if (!isal_ok && (nat[ni].good.be == EC_BACKEND_ISA_L_RS_VAND || nat[ni].good.be == EC_BACKEND_ISA_L_RS_CAUCHY)) continue;
            for (int rep = 0; rep < 3; rep++) {
                if (!mon_case("natural-init-failure|%s|after-%d-instances", nat[ni].why, rep)) continue;
                qp_t q0; q_begin(&q0);
                for (int w = 0; w < rep; w++) { live_t L; if (live_open(&L, &nat[ni].good, 200 + (uint64_t)w, MO.seed) == 0) { live_roundtrip(&L, "C17", "before the failing create", w); live_close(&L); } else mon_viol("C17", "create-failed", "supported configuration refused"); }
                for (int t = 0; t < 3; t++) {
                    qp_t q; q_begin(&q); int before = registry_len();
                    int d = lec_create(&nat[ni].bad);
                    mon_count("evaluations", 1); mon_count("natural_init_failures", 1);
                    if (d >= 0) { mon_viol("C17", "init-failure-not-reported", "create(%s) returned %d", nat[ni].why, d); if (d > 0) liberasurecode_instance_destroy(d); }
                    q_zero(&q, "C17", "create whose backend init refuses the parameters");
                    if (registry_len() != before) mon_viol("C17", "init-failure-registered", "registry length changed from %d to %d", before, registry_len());
                }
                { live_t L; if (live_open(&L, &nat[ni].good, 311, MO.seed) == 0) { live_roundtrip(&L, "C17", "create after failing creates", 1); live_close(&L); } else mon_viol("C17", "create-after-failed-init", "supported configuration refused after failing creates"); }
                q_delta(&q0, "C17", "good/failing/good create sequence", 0, 1);
                q_leakcheck("C17", "natural init failures");
                mon_distinct("nontrivial", mon_hash_u64((uint64_t)ni * 8 + (uint64_t)rep, 171));
                mon_end();
            }
        }
    }
    /* the flat-XOR backend's own failures: erasure sets of exactly hd (.. m) fragments are accepted by the front end and many of
     * them cannot be solved by the code; the backend then reports failure and the public call has to pass that on.  Oracle:
     * GF(2) rank of the surviving rows (unsolvable => the call must fail), bytes when it succeeds. */
    {
        static const cfg_t xs[] = { { EC_BACKEND_FLAT_XOR_HD, 5, 5, 3, 0, CHKSUM_CRC32 }, { EC_BACKEND_FLAT_XOR_HD, 9, 5, 3, 0, CHKSUM_NONE }, { EC_BACKEND_FLAT_XOR_HD, 10, 5, 3, 0, CHKSUM_CRC32 },
                                    { EC_BACKEND_FLAT_XOR_HD, 6, 6, 3, 0, CHKSUM_NONE }, { EC_BACKEND_FLAT_XOR_HD, 3, 3, 3, 0, CHKSUM_CRC32 }, { EC_BACKEND_FLAT_XOR_HD, 6, 6, 4, 0, CHKSUM_CRC32 } };
        for (size_t xi = 0; xi < sizeof xs / sizeof xs[0]; xi++) {
            cfg_t c = xs[xi]; char ck[96]; cfg_key(&c, ck, sizeof ck);
            live_t L; int ok = 0;
            if (mon_case_all("%s|backend-own-failures|setup", ck)) { ok = live_open(&L, &c, (uint64_t)c.k * 23 + 5, MO.seed) == 0; if (!ok) mon_viol("C17", "setup-failed", "create/encode failed"); ledger_refresh(); mon_end(); }
            if (!ok) continue;
            int n = c.k + c.m; uint32_t full = (1u << n) - 1;
            for (int sz = c.hd; sz <= c.m && sz <= c.hd + 1; sz++) {
                int cb[32]; comb_first(cb, sz);
                do {
                    uint32_t er = mask_of(cb, sz);
                    if (!(er & ((1u << c.k) - 1))) continue;                                   /* data must be lost or the backend is not asked */
                    char em[128]; mask_str(er, n, em, sizeof em);
                    if (!mon_case("%s|backend-own-failures|E=%s", ck, em)) continue;
                    qp_t q; q_begin(&q);
                    int sel[32]; int ns = list_of(full & ~er, n, sel);
                    int solvable = 1; for (int i = 0; i < c.k; i++) if (((er >> i) & 1) && !gf2_in_span(L.cd.x, sel, ns, L.cd.x[i])) solvable = 0;
                    char *lst[64]; int cnt = 0; for (int i = 0; i < n; i++) if (!((er >> i) & 1)) lst[cnt++] = (char *)L.s.frag[i];
                    char *out = NULL; uint64_t ol = 0;
                    int rc = liberasurecode_decode(L.desc, lst, cnt, L.s.flen, 0, &out, &ol);
                    mon_count("evaluations", 1); mon_count(solvable ? "band_sets_solvable" : "band_sets_unsolvable", 1);
                    if (rc == 0) {
                        int exact = ol == L.s.len && !memcmp(out, L.data, L.s.len);
                        liberasurecode_decode_cleanup(L.desc, out);
                        if (!exact) mon_viol("C17", "backend-failure-not-reported", "decode of an erasure set the flat-XOR code %s returned 0 with wrong bytes", solvable ? "can solve" : "cannot solve");
                    } else { if (rc > 0) mon_viol("C17", "positive-rc", "rc=%d", rc); mon_count("backend_own_failures_reported", 1); }
                    int dest = __builtin_ctz(er);
                    uint8_t *o = malloc(L.s.flen);
                    rc = liberasurecode_reconstruct_fragment(L.desc, lst, cnt, L.s.flen, dest, (char *)o);
                    mon_count("evaluations", 1);
                    if (rc == 0 && memcmp(o, L.s.frag[dest], L.s.flen)) mon_viol("C17", "backend-failure-not-reported", "reconstruct(dest=%d) of an erasure set the flat-XOR code %s returned 0 with a wrong fragment", dest, solvable ? "can solve" : "cannot solve");
                    free(o);
                    /* the planner's own refusals: the same index set as a fragments_needed query, split between the two lists in
                     * every way (it answers 0 with a sufficient list, or an error; either way nothing stays allocated) */
                    for (uint32_t sp = 1; sp < (1u << sz); sp++) {
                        int R[8], X[8], nr = 0, nx = 0, N[40];
                        for (int i = 0; i < sz; i++) if (sp >> i & 1) R[nr++] = cb[i]; else X[nx++] = cb[i];
                        R[nr] = -1; X[nx] = -1;
                        int nrc = liberasurecode_fragments_needed(L.desc, R, X, N);
                        mon_count("evaluations", 1); mon_count(nrc == 0 ? "band_needed_answered" : "band_needed_refused", 1);
                        if (nrc > 0) mon_viol("C17", "positive-rc", "fragments_needed rc=%d", nrc);
                        if (nrc == 0) { uint32_t got = 0; int bad = 0; for (int i = 0; i < 40 && N[i] != -1; i++) { if (N[i] < 0 || N[i] >= n || (er >> N[i] & 1)) bad = 1; else got |= 1u << N[i]; }
                                        int s2[32]; int n2 = list_of(got, n, s2);
                                        for (int i = 0; i < nr && !bad; i++) if (!gf2_in_span(L.cd.x, s2, n2, L.cd.x[R[i]])) bad = 1;
                                        if (bad) mon_viol("C17", "backend-failure-not-reported", "fragments_needed for an index set of %d fragments (hd=%d) answered 0 with a list that is not usable", sz, c.hd); }
                    }
                    q_zero(&q, "C17", "decode/reconstruct/fragments_needed the backend itself refuses");
                    /* and the instance still works */
                    if ((er & 7u) == 1u) live_roundtrip(&L, "C17", "after a backend-reported failure", 1);
                    mon_distinct("nontrivial", mon_hash_u64(er, mon_hash_str(ck, 172)));
                    mon_end();
                } while (comb_next(cb, sz, n));
            }
            if (mon_case_all("%s|backend-own-failures|teardown", ck)) { live_close(&L); mon_end(); }
        }
    }
    if (mon_case_all("final-leakcheck")) { q_leakcheck("C17", "end of fault workload"); mon_end(); }
}

int main(int argc, char **argv)
{
    mon_init(argc, argv);
    LEC_PROP = MO.prop;
    isal_ok = liberasurecode_backend_available(EC_BACKEND_ISA_L_RS_VAND);
    shss_ok = liberasurecode_backend_available(EC_BACKEND_SHSS);
    phazr_ok = liberasurecode_backend_available(EC_BACKEND_LIBPHAZR);
    mon_count0("libphazr_standin_plugin_available", phazr_ok);
    jer_ok = liberasurecode_backend_available(EC_BACKEND_JERASURE_RS_VAND) && liberasurecode_backend_available(EC_BACKEND_JERASURE_RS_CAUCHY);
    mon_count0("jerasure_standin_plugin_available", jer_ok);
    mon_count0("isal_reference_plugin_available", isal_ok);
    mon_count0("shss_standin_plugin_available", shss_ok);
    mon_count0("ledger_available", ledger_available());
    if (!strcmp(PROP, "C13")) run_invalid();
    else if ((!strcmp(PROP, "C14") || !strcmp(PROP, "C17")) && !strcmp(MO.mode, "oomcreate")) run_registry_oomcreate(PROP);
    else if (!strcmp(PROP, "C14")) run_registry();
    else if (!strcmp(PROP, "C16") && !strcmp(MO.mode, "oom")) run_oom();
    else if (!strcmp(PROP, "C03") && !strcmp(MO.mode, "oomrec")) { oom_only_kind = 2; OOM_PROP = PROP; run_oom(); }
    else if (!strcmp(PROP, "C15") && !strcmp(MO.mode, "oomenc")) { oom_only_kind = 0; OOM_PROP = PROP; run_oom(); }
    else if (!strcmp(PROP, "C16")) run_leaks();
    else if (!strcmp(PROP, "C17")) run_faults();
    else { mon_logf("HARNESS unknown property %s", PROP); mon_finish(); return 2; }
    mon_finish();
    return 0;
}
