/* Codec monitors: C01 (round trip), C02 (no silent corruption), C03 (reconstruct
 * fidelity), C05 (flat-XOR tables + decoder), C06 (fragments_needed), C19 (ISA-L
 * adapters on the reference plugin), C20 (forced metadata checks), C04 (canonical
 * RS-Vandermonde).  Every case = one or a few public-API calls whose result is
 * compared with an oracle that does not depend on the library. */
#include "lec.h"
#include "erasurecode_backend.h"
#include "xor_code.h"
#include <stdio.h>
#include <stdlib.h>
#include <string.h>
#include <dlfcn.h>
#include <pthread.h>

#define PROP LEC_PROP

/* ---------------------------------------------------------------- erasure sets */
static uint64_t binom(int n, int k) { if (k < 0 || k > n) return 0; uint64_t r = 1; for (int i = 1; i <= k; i++) r = r * (uint64_t)(n - k + i) / (uint64_t)i; return r; }

/* masks of ERASED indexes of size 0..maxsz; exhaustive when that fits in cap */
static int gen_esets(int n, int k, int maxsz, int cap, rng_t *r, uint32_t *out, int *exhaustive)
{
    uint64_t total = 0;
    for (int s = 0; s <= maxsz; s++) total += binom(n, s);
    int cnt = 0;
    if (total <= (uint64_t)cap) {
        *exhaustive = 1;
        for (int s = 0; s <= maxsz; s++) {
            int c[32]; comb_first(c, s);
            do { out[cnt++] = mask_of(c, s); } while (s > 0 && comb_next(c, s, n));
        }
        return cnt;
    }
    *exhaustive = 0;
    out[cnt++] = 0;
    for (int i = 0; i < n && cnt < cap; i++) out[cnt++] = 1u << i;
    /* extremes at maximum size */
    uint32_t full = n == 32 ? 0xffffffffu : ((1u << n) - 1);
    uint32_t firstt = maxsz >= 32 ? full : ((1u << maxsz) - 1);
    uint32_t lastt = (firstt << (n - maxsz)) & full;
    if (cnt < cap) out[cnt++] = firstt;                      /* first t (data) */
    if (cnt < cap) out[cnt++] = lastt;                       /* last t (parity / index n-1) */
    int m = n - k;
    { int t = maxsz < m ? maxsz : m; uint32_t mk = ((t >= 32 ? 0xffffffffu : ((1u << t) - 1)) << k) & full; if (cnt < cap) out[cnt++] = mk; } /* first t parities */
    { int t = maxsz < k ? maxsz : k; uint32_t mk = (t >= 32 ? 0xffffffffu : ((1u << t) - 1)) << (k - t); if (cnt < cap) out[cnt++] = mk & full; } /* last t data */
    while (cnt < cap) {
        int sz = (rng_below(r, 4) == 0) ? 1 + (int)rng_below(r, (uint32_t)maxsz) : maxsz;
        int perm[32]; for (int i = 0; i < n; i++) perm[i] = i;
        rng_shuffle(r, perm, n);
        out[cnt++] = mask_of(perm, sz);
    }
    return cnt;
}

/* ---------------------------------------------------------------- presentations */
#define NPRES 7
static const char *pres_name[NPRES] = { "asc", "rev", "shuf-misaligned", "asc+dup-mixed", "shuf+dup-copy", "asc-misaligned", "heavy-dup" };

/* build index list of survivors for presentation p */
static int pres_indexes(int p, uint32_t present, int n, rng_t *r, int *idx)
{
    int cnt = list_of(present, n, idx);
    if (cnt == 0) return 0;
    switch (p) {
    case 1: for (int i = 0; i < cnt / 2; i++) { int t = idx[i]; idx[i] = idx[cnt - 1 - i]; idx[cnt - 1 - i] = t; } break;
    case 2: rng_shuffle(r, idx, cnt); break;
    case 3: { int d = 1 + (int)rng_below(r, 2); for (int i = 0; i < d && cnt < PRES_MAX - 1; i++) { idx[cnt] = idx[rng_below(r, (uint32_t)cnt)]; cnt++; } } break;
    case 4: { rng_shuffle(r, idx, cnt); int d = 1 + (int)rng_below(r, 3);
              for (int i = 0; i < d && cnt < PRES_MAX - 1; i++) { int pos = (int)rng_below(r, (uint32_t)cnt + 1); int v = idx[rng_below(r, (uint32_t)cnt)];
                  memmove(idx + pos + 1, idx + pos, sizeof(int) * (size_t)(cnt - pos)); idx[pos] = v; cnt++; } } break;
    case 6: {   /* the list repeated until it has 33..120 entries (nothing bounds the number of pointers a caller may pass) */
        int base = cnt, target = 33 + (int)rng_below(r, 88);
        while (cnt < target && cnt < PRES_MAX - 1) { idx[cnt] = idx[rng_below(r, (uint32_t)base)]; cnt++; }
        rng_shuffle(r, idx, cnt);
    } break;
    default: break;
    }
    return cnt;
}
static int pres_almode(int p) { return p == 2 || p == 5 ? AL_MISALIGNED : (p == 3 || p == 6 ? AL_MIXED : AL_ALIGNED); }

/* ---------------------------------------------------------------- oracles */
/* is success REQUIRED when exactly `present` (distinct indexes) are supplied? */
static int must_succeed(const ctx_t *x, uint32_t present)
{
    int n = cfg_n(&x->c);
    int np = __builtin_popcount(present);
    int miss = n - np;
    if (x->c.be == EC_BACKEND_FLAT_XOR_HD) return miss < x->c.hd;
    if (miss > x->c.m) return 0;
    if (x->c.be == EC_BACKEND_LIBERASURECODE_RS_VAND) return 1;
    return code_firstk_invertible(&x->cd, present);   /* ISA-L adapters use the first k survivors */
}

/* presentation variants applied on top of the order/duplicate/alignment presentation, chosen by the case index:
 *   5 of 8: plain heap copies
 *   1 of 8: every fragment on its own read-only mapping (a write by the library faults)
 *   1 of 8: fragments as an OLDER library release wrote them (writer version 1.5.0 / 1.2.0 / 1.1.0 ..., re-sealed):
 *           readers accept them, results must be the same and the inputs must come back untouched
 *   1 of 8: the call is made on a thread with a small stack (payload-sized stack buffers overflow it) */
#define PV_PLAIN 0
#define PV_READONLY 1
#define PV_OLDWRITER 2
#define PV_SMALLSTACK 3
static int pres_variant(void)
{
    switch (mon_case_idx % 8) { case 5: return PV_READONLY; case 6: return PV_OLDWRITER; case 7: return PV_SMALLSTACK; }
    return PV_PLAIN;
}
static void old_writer(pres_t *pr, const int *idx, int cnt, uint64_t flen, rng_t *r)
{
    static const uint32_t ov[] = { 0x010500, 0x010200, 0x010100, 0x010603, 0x010000, 0x010400 };
    uint32_t v = ov[rng_below(r, 6)];
    for (int i = 0; i < cnt; i++) {
        if (flen < REF_HDR_LEN) continue;
        ref_put32((uint8_t *)pr->ptr[i] + REF_OFF_LIBVER, v);
        ref_hdr_reseal((uint8_t *)pr->ptr[i], idx[i] & 1);      /* by fragment index: duplicate copies stay identical */
    }
}
/* run fn(arg) on a thread with a 192 KiB stack (the library's own frames are small; anything sized by the payload is not) */
typedef struct { int (*fn)(void *); void *arg; int rc; } sst_t;
static void *sst_tramp(void *v) { sst_t *t = v; t->rc = t->fn(t->arg); return NULL; }
static int on_small_stack(int (*fn)(void *), void *arg)
{
    pthread_attr_t at; pthread_attr_init(&at); pthread_attr_setstacksize(&at, 192 * 1024);
    sst_t t = { fn, arg, 0 }; pthread_t th;
    if (pthread_create(&th, &at, sst_tramp, &t) != 0) { pthread_attr_destroy(&at); return fn(arg); }
    pthread_join(th, NULL); pthread_attr_destroy(&at);
    mon_count("calls_on_small_stack_thread", 1);
    return t.rc;
}
typedef struct { int desc; char **frags; int cnt; uint64_t flen; int force; char **out; uint64_t *outlen; int dest; char *outfrag; } callargs_t;
static int do_decode(void *v) { callargs_t *a = v; return liberasurecode_decode(a->desc, a->frags, a->cnt, a->flen, a->force, a->out, a->outlen); }
static int do_reconstruct(void *v) { callargs_t *a = v; return liberasurecode_reconstruct_fragment(a->desc, a->frags, a->cnt, a->flen, a->dest, a->outfrag); }

static void check_decode(ctx_t *x, int si, uint32_t present, int p, int force, int require, const char *cls)
{
    stripe_t *s = &x->st[si];
    int n = s->n;
    rng_t r; rng_case(&r);
    int idx[PRES_MAX];
    int cnt = pres_indexes(p, present, n, &r, idx);
    int pv = pres_variant();
    pres_t pr; pres_build(&pr, s, idx, cnt, pres_almode(p), 0, &r);
    if (pv == PV_OLDWRITER) { old_writer(&pr, idx, cnt, s->flen, &r); mon_count("cases_old_writer_fragments", 1); }
    uint64_t dig[PRES_MAX]; for (int i = 0; i < cnt; i++) dig[i] = mon_hash(pr.ptr[i], s->flen, 5);
    if (pv == PV_READONLY) {   /* move every presented fragment onto a read-only mapping with the same misalignment */
        for (int i = 0; i < cnt; i++) {
            uint8_t *b = g_alloc_off(s->flen, (int)((uintptr_t)pr.ptr[i] & 15));
            memcpy(b, pr.ptr[i], s->flen); g_ro(b);
            free(pr.base[i]); pr.ptr[i] = (char *)b; pr.base[i] = b; pr.kind[i] = 1;
        }
        mon_count("cases_read_only_fragments", 1);
    }
    char *out = (char *)(uintptr_t)0x1; uint64_t outlen = 0xdeadbeef;
    static char *dummy[1];
    /* one call in four goes through the separately created twin instance of the same configuration */
    int desc = (x->desc2 > 0 && (mon_case_idx & 3) == 3) ? x->desc2 : x->desc;
    if (desc != x->desc) mon_count("calls_through_twin_instance", 1);
    /* "forced" is any non-zero value of the flag */
    static const int fv[] = { 1, 1, -1, 2, 1, 0x100, -0x7fffffff - 1, 1 };
    int fval = force ? fv[(mon_case_idx / 8) % 8] : 0;
    /* the list of fragment pointers is an input as well: handed over on a read-only mapping in a quarter of the cases,
     * compared with a snapshot in all of them */
    char *listcopy[PRES_MAX]; memcpy(listcopy, pr.ptr, sizeof(char *) * (size_t)cnt);
    char **lst = pr.ptr; char **rolist = NULL;
    if (cnt && (mon_case_idx % 4) == 2) { rolist = g_alloc(sizeof(char *) * (size_t)cnt, G_END); memcpy(rolist, pr.ptr, sizeof(char *) * (size_t)cnt); g_ro(rolist); lst = rolist; mon_count("cases_read_only_pointer_list", 1); }
    callargs_t ca = { desc, cnt ? lst : dummy, cnt, s->flen, fval, &out, &outlen, 0, NULL };
    int rc = pv == PV_SMALLSTACK ? on_small_stack(do_decode, &ca) : do_decode(&ca);
    if (cnt && memcmp(lst, listcopy, sizeof(char *) * (size_t)cnt)) mon_viol(PROP, "decode-modified-input-list", "decode(force=%d) changed the caller's array of fragment pointers", fval);
    if (rolist) g_free(rolist);
    mon_count("evaluations", 1);
    mon_count("decode_calls", 1);
    if (rc == 0) {
        mon_count("decode_rc0", 1);
        if (outlen != s->len)
            mon_viol(PROP, "decode-wrong-length", "decode returned 0 with length %llu, original %llu", (unsigned long long)outlen, (unsigned long long)s->len);
        else if (s->len && memcmp(out, s->data, s->len)) {
            uint64_t off = 0; while (((uint8_t *)out)[off] == s->data[off]) off++;
            mon_viol(PROP, "decode-wrong-bytes", "decode returned 0 but byte %llu of %llu differs (got %02x want %02x)",
                     (unsigned long long)off, (unsigned long long)s->len, ((uint8_t *)out)[off], s->data[off]);
        }
        liberasurecode_decode_cleanup(desc, out);
    } else if (rc > 0) {
        mon_viol(PROP, "decode-positive-rc", "decode returned positive code %d", rc);
    } else {
        mon_count("decode_err", 1);
        if (require)
            mon_viol(PROP, "decode-refused", "decode(force=%d) returned %d although the erasures are within tolerance (present=0x%x%s)", fval, rc, present, pv == PV_OLDWRITER ? ", fragments stamped by an older writer version" : "");
    }
    /* the fragments handed in are still what they were */
    for (int i = 0; i < cnt; i++)
        if (mon_hash(pr.ptr[i], s->flen, 5) != dig[i]) { mon_viol(PROP, "decode-modified-input", "input fragment %d changed by decode%s", idx[i], pv == PV_OLDWRITER ? " (fragments stamped by an older writer version)" : ""); break; }
    pres_free(&pr);
    (void)cls;
}

static void check_reconstruct(ctx_t *x, int si, uint32_t present, int p, int dest, int require)
{
    stripe_t *s = &x->st[si];
    int n = s->n;
    rng_t r; rng_case(&r);
    int idx[PRES_MAX];
    int cnt = pres_indexes(p, present, n, &r, idx);
    int pv = pres_variant();
    pres_t pr; pres_build(&pr, s, idx, cnt, pres_almode(p), 0, &r);
    if (pv == PV_OLDWRITER) { old_writer(&pr, idx, cnt, s->flen, &r); mon_count("cases_old_writer_fragments", 1); }
    uint64_t dig[PRES_MAX]; for (int i = 0; i < cnt; i++) dig[i] = mon_hash(pr.ptr[i], s->flen, 5);
    /* what a supplied destination must come back as: the (first) copy that was handed in */
    uint8_t *supplied = NULL;
    for (int i = 0; i < cnt && !supplied; i++) if (idx[i] == dest) { supplied = malloc(s->flen ? s->flen : 1); memcpy(supplied, pr.ptr[i], s->flen); }
    if (pv == PV_READONLY) {
        for (int i = 0; i < cnt; i++) {
            uint8_t *b = g_alloc_off(s->flen, (int)((uintptr_t)pr.ptr[i] & 15));
            memcpy(b, pr.ptr[i], s->flen); g_ro(b);
            free(pr.base[i]); pr.ptr[i] = (char *)b; pr.base[i] = b; pr.kind[i] = 1;
        }
        mon_count("cases_read_only_fragments", 1);
    }
    /* the output buffer holds stale non-zero bytes and, in half of the cases, does not start on a 16-byte boundary */
    int omis = (mon_case_idx % 2) ? 1 + (int)(mon_case_idx / 2 % 15) : 0;
    uint8_t *outbase = malloc((s->flen ? s->flen : 1) + 16);
    uint8_t *out = outbase + omis;
    for (uint64_t b = 0; b < s->flen; b++) out[b] = (uint8_t)(0xC3 ^ (b * 29));
    if (omis) mon_count("reconstruct_output_misaligned", 1);
    static char *dummy[1];
    int desc = (x->desc2 > 0 && (mon_case_idx & 3) == 1) ? x->desc2 : x->desc;
    if (desc != x->desc) mon_count("calls_through_twin_instance", 1);
    char *listcopy[PRES_MAX]; memcpy(listcopy, pr.ptr, sizeof(char *) * (size_t)cnt);
    char **lst = pr.ptr; char **rolist = NULL;
    if (cnt && (mon_case_idx % 4) == 0) { rolist = g_alloc(sizeof(char *) * (size_t)cnt, G_END); memcpy(rolist, pr.ptr, sizeof(char *) * (size_t)cnt); g_ro(rolist); lst = rolist; mon_count("cases_read_only_pointer_list", 1); }
    callargs_t ca = { desc, cnt ? lst : dummy, cnt, s->flen, 0, NULL, NULL, dest, (char *)out };
    int rc = pv == PV_SMALLSTACK ? on_small_stack(do_reconstruct, &ca) : do_reconstruct(&ca);
    if (cnt && memcmp(lst, listcopy, sizeof(char *) * (size_t)cnt)) mon_viol(PROP, "reconstruct-modified-input-list", "reconstruct changed the caller's array of fragment pointers");
    if (rolist) g_free(rolist);
    mon_count("evaluations", 1);
    mon_count("reconstruct_calls", 1);
    int in_range = dest >= 0 && dest < n;
    if (rc == 0) {
        mon_count("reconstruct_rc0", 1);
        const uint8_t *want = supplied ? supplied : (in_range ? s->frag[dest] : NULL);
        if (!in_range)
            mon_viol(PROP, "reconstruct-accepted-bad-destination", "destination %d outside 0..%d accepted", dest, n - 1);
        else if (memcmp(out, want, s->flen)) {
            uint64_t off = 0; while (out[off] == want[off]) off++;
            mon_viol(PROP, "reconstruct-wrong-bytes", "reconstruct(dest=%d) returned 0 but byte %llu differs from %s (%s, got %02x want %02x)",
                     dest, (unsigned long long)off, supplied ? "the supplied copy of that fragment" : "encode's fragment", off < 80 ? "header" : "payload", out[off], want[off]);
        }
    } else if (rc > 0) {
        mon_viol(PROP, "reconstruct-positive-rc", "reconstruct returned positive code %d", rc);
    } else {
        mon_count("reconstruct_err", 1);
        if (require && in_range)
            mon_viol(PROP, "reconstruct-refused", "reconstruct(dest=%d) returned %d although erasures are within tolerance (present=0x%x%s)", dest, rc, present, pv == PV_OLDWRITER ? ", fragments stamped by an older writer version" : "");
    }
    for (int i = 0; i < cnt; i++)
        if (mon_hash(pr.ptr[i], s->flen, 5) != dig[i]) { mon_viol(PROP, "reconstruct-modified-input", "input fragment %d changed", idx[i]); break; }
    free(outbase); free(supplied);
    pres_free(&pr);
}

/* destination among the supplied fragments: "returned unchanged" means byte-identical to the copy that
 * was handed in - also when that copy is distinguishable from what this instance would write itself
 * (variant 1: one payload byte differs, 2: metadata sealed with the historical CRC, 3: checksum-type byte
 * differs, re-sealed).  All variants keep a header decode/reconstruct accept. */
static void check_reconstruct_supplied(ctx_t *x, int si, uint32_t present, int p, int dest, int variant)
{
    stripe_t *s = &x->st[si];
    int n = s->n;
    rng_t r; rng_case(&r);
    int idx[PRES_MAX];
    int cnt = pres_indexes(p, present, n, &r, idx);
    pres_t pr; pres_build(&pr, s, idx, cnt, pres_almode(p), 0, &r);
    uint8_t *alt = malloc(s->flen); memcpy(alt, s->frag[dest], s->flen);
    uint64_t P = s->flen - REF_HDR_LEN;
    if (variant == 1 && P) alt[REF_HDR_LEN + rng_below(&r, (uint32_t)P)] ^= (uint8_t)(1u << rng_below(&r, 8));
    else if (variant == 2) ref_hdr_reseal(alt, 1);
    else if (variant == 3) { alt[REF_OFF_CT] = alt[REF_OFF_CT] == CHKSUM_CRC32 ? CHKSUM_NONE : CHKSUM_CRC32; ref_hdr_reseal(alt, 0); }
    int placed = 0;
    for (int i = 0; i < cnt; i++) if (idx[i] == dest) { memcpy(pr.ptr[i], alt, s->flen); placed++; }
    uint8_t *out = malloc(s->flen ? s->flen : 1);
    memset(out, 0xCD, s->flen);
    int rc = placed ? liberasurecode_reconstruct_fragment(x->desc, pr.ptr, cnt, s->flen, dest, (char *)out) : 0;
    mon_count("evaluations", 1); mon_count("reconstruct_calls", 1); mon_count("dest_supplied_altered", placed ? 1 : 0);
    if (placed) {
        if (rc != 0) mon_viol(PROP, "reconstruct-supplied-refused", "reconstruct(dest=%d, supplied, variant %d) returned %d", dest, variant, rc);
        else if (memcmp(out, alt, s->flen)) {
            uint64_t off = 0; while (out[off] == alt[off]) off++;
            mon_viol(PROP, "reconstruct-supplied-not-unchanged", "destination %d was among the supplied fragments (variant %d) but byte %llu of the result differs from the supplied copy (got %02x, supplied %02x)",
                     dest, variant, (unsigned long long)off, out[off], alt[off]);
        }
        for (int i = 0; i < cnt; i++) {
            const uint8_t *want = idx[i] == dest ? alt : s->frag[idx[i]];
            if (memcmp(pr.ptr[i], want, s->flen)) { mon_viol(PROP, "reconstruct-modified-input", "input fragment %d changed by reconstruct (destination supplied, variant %d)", idx[i], variant); break; }
        }
    }
    free(out); free(alt);
    pres_free(&pr);
}

/* ================================================================ C01 */
static void add_cfgs(cfg_t *cfgs, int *n, int max, int be, int thorough_shapes)
{
    *n += cfgs_rs(cfgs + *n, max - *n, be, thorough_shapes, MO.seed);
}

static int isal_available(void)
{
    return liberasurecode_backend_available(EC_BACKEND_ISA_L_RS_VAND);
}

static void run_roundtrip(int which /*1 builtin,2 isal,3 both*/)
{
    static cfg_t cfgs[1200];
    int nc = 0;
    if (which & 1) {
        add_cfgs(cfgs, &nc, 1200, EC_BACKEND_LIBERASURECODE_RS_VAND, MO.thorough);
        nc += cfgs_xor(cfgs + nc, 1200 - nc);
        nc += cfgs_shss(cfgs + nc, 1200 - nc);      /* backend with per-fragment metadata and forced decode (stand-in library) */
        nc += cfgs_jer(cfgs + nc, 1200 - nc);
        nc += cfgs_phazr(cfgs + nc, 1200 - nc);
    }
    if (which & 2) {
        add_cfgs(cfgs, &nc, 1200, EC_BACKEND_ISA_L_RS_VAND, MO.thorough && which == 2);
        add_cfgs(cfgs, &nc, 1200, EC_BACKEND_ISA_L_RS_CAUCHY, MO.thorough && which == 2);
    }
    static uint32_t es[120000];
    for (int ci = 0; ci < nc; ci++) {
        cfg_t c = cfgs[ci];
        c.ct = (ci % 7 == 5) ? CHKSUM_MD5 : (ci & 1) ? CHKSUM_NONE : CHKSUM_CRC32;
        uint64_t lens[MAXSTR]; int kinds[MAXSTR];
        int nl = std_lengths(&c, lens, kinds, MAXSTR, 0);
        ctx_t x;
        if (ctx_open(&x, &c, lens, kinds, nl) == 0) {
            int n = cfg_n(&c), ex = 0;
            rng_t r; rng_seed(&r, MO.seed, mon_hash_str(x.ck, 11));
            int cap = MO.thorough ? (n <= 16 ? 40000 : 3000) : (c.be == EC_BACKEND_FLAT_XOR_HD ? 4000 : (n <= 12 ? 1500 : 120));
            int ne = gen_esets(n, c.k, cfg_tol(&c), cap, &r, es, &ex);
            uint32_t full = n == 32 ? 0xffffffffu : ((1u << n) - 1);
            for (int e = 0; e < ne; e++) {
                int si = e % x.nstr;
                int p = (e / x.nstr) % NPRES;
                int force = (e / 3) & 1;
                uint32_t present = full & ~es[e];
                char em[128]; mask_str(es[e], n, em, sizeof em);
                if (mon_case("%s|len=%llu|E=%s|pres=%s|force=%d", x.ck, (unsigned long long)x.st[si].len, em, pres_name[p], force)) {
                    int req = must_succeed(&x, present);
                    check_decode(&x, si, present, p, force, req, "rt");
                    int data_lost = (es[e] & ((1u << c.k) - 1)) != 0;
                    mon_count(data_lost ? "decodes_with_data_loss" : "decodes_fast_path", 1);
                    if (data_lost) {
                        uint64_t h = mon_hash_str(x.ck, es[e]);
                        h = mon_hash_u64((uint64_t)p * 4 + (uint64_t)force, h);
                        h = mon_hash_u64(x.st[si].len % (16 * (uint64_t)c.k * 4 + 1), h);
                        mon_distinct("nontrivial", h);
                    }
                    if (!req) mon_count("decodes_not_required_isal_singular_firstk", 1);
                    if (e % 997 == 0)
                        mon_sample("{\"config\":\"%s\",\"len\":%llu,\"data\":\"%s\",\"erased\":\"%s\",\"presentation\":\"%s\",\"force\":%d,\"required\":%d}",
                                   x.ck, (unsigned long long)x.st[si].len, data_kind_name(x.kind[si]), em, pres_name[p], force, req);
                    mon_end();
                }
            }
            if (ex) mon_count0("configs_with_exhaustive_erasure_sets", 1);
            mon_count0("configs", 1);
        }
        ctx_close(&x);
    }
    /* objects of several MiB (sizes and offsets beyond 16 bits / near the 32-bit int the front end computes with): one stripe
     * per backend, compared with the model in ctx_open, decoded with data lost.  One shard per configuration. */
    {
        static const cfg_t big[] = { { EC_BACKEND_LIBERASURECODE_RS_VAND, 4, 2, 2, 0, CHKSUM_CRC32 }, { EC_BACKEND_FLAT_XOR_HD, 10, 5, 3, 0, CHKSUM_CRC32 }, { EC_BACKEND_ISA_L_RS_VAND, 4, 2, 2, 0, CHKSUM_NONE },
                                     { EC_BACKEND_LIBERASURECODE_RS_VAND, 2, 1, 1, 0, CHKSUM_NONE }, { EC_BACKEND_JERASURE_RS_CAUCHY, 3, 2, 2, 0, CHKSUM_CRC32 }, { EC_BACKEND_LIBPHAZR, 4, 2, 1, 0, CHKSUM_CRC32 },
                                     { EC_BACKEND_SHSS, 4, 2, 2, 0, CHKSUM_CRC32 }, { EC_BACKEND_FLAT_XOR_HD, 6, 6, 4, 0, CHKSUM_NONE } };
        for (size_t bi = 0; bi < sizeof big / sizeof big[0]; bi++) {
            cfg_t c = big[bi];
            if ((int)(bi % (size_t)(MO.nshards > 0 ? MO.nshards : 1)) != MO.shard) continue;
            if (!(which & 2) && (c.be == EC_BACKEND_ISA_L_RS_VAND || c.be == EC_BACKEND_ISA_L_RS_CAUCHY)) continue;
            if (!liberasurecode_backend_available((ec_backend_id_t)c.be)) continue;
            uint64_t lens[1] = { MO.thorough ? 48ull * 1048576 + 5 : 4ull * 1048576 + 3 }; int kinds[1] = { DATA_RANDOM };
            if (c.k == 2) lens[0] = MO.thorough ? 96ull * 1048576 + 1 : 16ull * 1048576 + 1;       /* 8 MiB (thorough: 48 MiB) per fragment */
            ctx_t x;
            if (ctx_open(&x, &c, lens, kinds, 1) == 0) {
                int n = cfg_n(&c); uint32_t full = (1u << n) - 1;
                uint32_t sets[3] = { 1u, 1u << c.k, cfg_tol(&c) >= 2 ? (1u | 1u << (n - 1)) : 2u % full };
                for (int e = 0; e < 3; e++) {
                    if (!mon_case_all("%s|large-object|len=%llu|E=0x%x", x.ck, (unsigned long long)lens[0], sets[e])) continue;
                    check_decode(&x, 0, full & ~sets[e], e == 1 ? 3 : 0, e & 1, 1, "big");
                    mon_count("large_object_decodes", 1);
                    mon_distinct("nontrivial", mon_hash_u64(sets[e], mon_hash_str(x.ck, 4040)));
                    mon_end();
                }
            }
            ctx_close(&x);
        }
    }
}

/* ================================================================ C02 */
/* C02: fragment lists far longer than k+m in which ONE index is supplied 255, 256, 257, 512, 65536 (thorough: also 65537 and
 * 131072) times - counts at which an 8- or 16-bit tally of copies comes round - while another data fragment is missing.
 * decode, reconstruct of the missing one and reconstruct of the repeated one: success means the exact bytes, and the
 * caller's fragments are as they were. */
static void check_long_lists(ctx_t *x)
{
    const cfg_t *c = &x->c; int n = cfg_n(c);
    if (c->be == EC_BACKEND_NULL || cfg_tol(c) < 1 || c->k < 2 || x->nstr < 1) return;
    stripe_t *s = &x->st[0];
    static const long counts_q[] = { 255, 256, 257, 512, 65536 }, counts_t[] = { 255, 256, 257, 512, 65536, 65537, 131072 };
    const long *counts = MO.thorough ? counts_t : counts_q; int ncounts = MO.thorough ? 7 : 5;
    for (int ci = 0; ci < ncounts; ci++) for (int side = 0; side < 2; side++) {
        long cnt = counts[ci]; int rep = side ? c->k : 1, lost = 0;       /* the repeated index: data fragment 1 or the first parity; lost: data fragment 0 */
        if (side && c->m < 1) continue;
        if (!mon_case("%s|len=%llu|long-list|index-%d-supplied-%ld-times|lost=%d", x->ck, (unsigned long long)s->len, rep, cnt, lost)) continue;
        long total = cnt + n; char **lst = malloc(sizeof(char *) * (size_t)total); long q = 0;
        uint8_t **cp = malloc(sizeof(uint8_t *) * (size_t)n);
        for (int f = 0; f < n; f++) { cp[f] = NULL; if (f == lost) continue; if (posix_memalign((void **)&cp[f], 16, s->flen)) abort(); memcpy(cp[f], s->frag[f], s->flen); }
        int front = (ci + side) & 1;
        if (front) for (long i = 0; i < cnt; i++) lst[q++] = (char *)cp[rep];
        for (int f = 0; f < n; f++) if (f != lost && f != rep) lst[q++] = (char *)cp[f];
        if (!front) for (long i = 0; i < cnt; i++) lst[q++] = (char *)cp[rep];
        char *out = NULL; uint64_t ol = 0;
        int rc = liberasurecode_decode(x->desc, lst, (int)q, s->flen, 0, &out, &ol);
        mon_count("evaluations", 3); mon_count("long_list_calls", 3);
        if (rc > 0) mon_viol(PROP, "positive-rc", "decode returned %d", rc);
        if (rc == 0) { if (ol != s->len || memcmp(out, x->data[0], s->len)) mon_viol(PROP, "decode-wrong-bytes", "decode of a list with index %d supplied %ld times (data fragment %d missing) returned success with other bytes", rep, cnt, lost); liberasurecode_decode_cleanup(x->desc, out); }
        for (int dsel = 0; dsel < 2; dsel++) {
            int dest = dsel ? rep : lost; uint8_t *o = malloc(s->flen); memset(o, 0, s->flen);
            rc = liberasurecode_reconstruct_fragment(x->desc, lst, (int)q, s->flen, dest, (char *)o);
            if (rc > 0) mon_viol(PROP, "positive-rc", "reconstruct returned %d", rc);
            if (rc == 0 && memcmp(o, s->frag[dest], s->flen)) mon_viol(PROP, "reconstruct-wrong-bytes", "reconstruct(%d) from a list with index %d supplied %ld times returned success with another fragment", dest, rep, cnt);
            free(o);
        }
        for (int f = 0; f < n; f++) if (cp[f] && memcmp(cp[f], s->frag[f], s->flen)) { mon_viol(PROP, "input-fragment-modified", "fragment %d of the caller was modified by a call on a list with index %d supplied %ld times", f, rep, cnt); break; }
        for (int f = 0; f < n; f++) free(cp[f]);
        free(cp); free(lst);
        mon_distinct("nontrivial", mon_hash_u64((uint64_t)cnt * 2 + (uint64_t)side, mon_hash_str(x->ck, 77)));
        mon_end();
    }
}

static void run_nosilent(int which)
{
    static cfg_t cfgs[1200];
    int nc = 0;
    if (which & 1) {
        add_cfgs(cfgs, &nc, 1200, EC_BACKEND_LIBERASURECODE_RS_VAND, MO.thorough);
        nc += cfgs_xor(cfgs + nc, 1200 - nc);
        nc += cfgs_shss(cfgs + nc, 1200 - nc);
        nc += cfgs_jer(cfgs + nc, 1200 - nc);
        nc += cfgs_phazr(cfgs + nc, 1200 - nc);
    }
    if (which & 2) {
        add_cfgs(cfgs, &nc, 1200, EC_BACKEND_ISA_L_RS_VAND, MO.thorough);
        add_cfgs(cfgs, &nc, 1200, EC_BACKEND_ISA_L_RS_CAUCHY, 0);
    }
    int exh_n = MO.thorough ? 15 : 10;
    for (int ci = 0; ci < nc; ci++) {
        cfg_t c = cfgs[ci];
        c.ct = (ci % 3 == 0) ? CHKSUM_NONE : CHKSUM_CRC32;
        uint64_t lens[MAXSTR]; int kinds[MAXSTR];
        int nl = std_lengths(&c, lens, kinds, MAXSTR, 2);
        /* plus the two degenerate objects: empty (payload size 0, the value sizes are divided by) and a single byte; one case in eight */
        int ndeg = 0; if (nl == 2) { lens[nl] = 0; kinds[nl++] = DATA_RANDOM; lens[nl] = 1; kinds[nl++] = DATA_FF; ndeg = 2; }
        /* and one whose fragments hold eleven words (44 bytes for 4-byte words: more than one 16-byte vector, and a tail that is
         * neither a multiple of 16 nor of 8) */
        if (ndeg) { cfg_use(&c); lens[nl] = 10 * (uint64_t)c.k * (uint64_t)ref_word_bytes(c.be) + 1; kinds[nl++] = DATA_RANDOM; }
        ctx_t x;
        if (ctx_open(&x, &c, lens, kinds, nl) == 0) {
            int n = cfg_n(&c);
            uint32_t full = n == 32 ? 0xffffffffu : ((1u << n) - 1);
            rng_t r; rng_seed(&r, MO.seed, mon_hash_str(x.ck, 12));
            /* list of PRESENT masks */
            static uint32_t pm[70000]; int np = 0; int exhaustive = 0;
            if (n <= exh_n) {
                exhaustive = 1;
                for (uint32_t mk = 0; mk <= full; mk++) { pm[np++] = mk; if (mk == full) break; }
            } else {
                /* the band tol < |E| <= m (+1) completely when small, sampled otherwise; plus random subsets of every size */
                int lo = cfg_tol(&c) + 1, hi = c.m + 1 < n ? c.m + 1 : n;
                int cap = MO.thorough ? 4000 : 1500;
                for (int sz = lo; sz <= hi; sz++) {
                    if (binom(n, sz) <= (uint64_t)(cap / 3)) {
                        int cb[32]; comb_first(cb, sz);
                        do { if (np < cap) pm[np++] = full & ~mask_of(cb, sz); } while (comb_next(cb, sz, n));
                    }
                }
                while (np < cap) {
                    int sz = (int)rng_below(&r, (uint32_t)n + 1);
                    if (rng_below(&r, 2)) sz = lo + (int)rng_below(&r, (uint32_t)(hi - lo + 1));
                    int perm[32]; for (int i = 0; i < n; i++) perm[i] = i;
                    rng_shuffle(&r, perm, n);
                    pm[np++] = full & ~mask_of(perm, sz);
                }
            }
            if (exhaustive) mon_count0("configs_with_all_2^n_subsets", 1);
            for (int e = 0; e < np; e++) {
                uint32_t present = pm[e];
                int si = e % x.nstr;
                if (ndeg && x.nstr == 5) si = e % 8 == 7 ? 2 + ((e / 8) & 1) : (e % 8 == 2 || e % 8 == 5) ? 4 : e % 2;
                int p = (e % 11 == 6) ? 6 : (e % 5 == 4) ? 4 : ((e % 7 == 3) ? 3 : (e % 3 == 1 ? 2 : 0));
                char em[128]; mask_str(full & ~present, n, em, sizeof em);
                int miss = n - __builtin_popcount(present);
                int within = c.be == EC_BACKEND_FLAT_XOR_HD ? miss < c.hd : miss <= c.m;
                if (mon_case("%s|len=%llu|E=%s|pres=%s|decode", x.ck, (unsigned long long)x.st[si].len, em, pres_name[p])) {
                    check_decode(&x, si, present, p, e & 1, 0, "ns");
                    if (!within || p >= 3) mon_distinct("nontrivial", mon_hash_u64(present * 8u + (uint32_t)p, mon_hash_str(x.ck, 1)));
                    mon_count(within ? "subsets_within_tolerance" : "subsets_beyond_tolerance", 1);
                    if (e % 1499 == 0)
                        mon_sample("{\"config\":\"%s\",\"len\":%llu,\"erased\":\"%s\",\"presentation\":\"%s\",\"op\":\"decode\",\"within_tolerance\":%d}",
                                   x.ck, (unsigned long long)x.st[si].len, em, pres_name[p], within);
                    mon_end();
                }
                /* reconstruct: destinations = a missing one, an available one, rotating */
                int dests[3], nd = 0;
                int lst[32]; int nm = list_of(full & ~present, n, lst);
                if (nm) dests[nd++] = lst[e % nm];
                if (nm > 1) dests[nd++] = lst[(e / 3 + 1) % nm];
                int nav = list_of(present, n, lst);
                if (nav && e % 4 == 0) dests[nd++] = lst[e % nav];
                for (int d = 0; d < nd; d++) {
                    if (mon_case("%s|len=%llu|E=%s|pres=%s|reconstruct|dest=%d", x.ck, (unsigned long long)x.st[si].len, em, pres_name[p], dests[d])) {
                        check_reconstruct(&x, si, present, p, dests[d], 0);
                        if (!within || p >= 3) mon_distinct("nontrivial", mon_hash_u64(present * 64u + (uint32_t)dests[d] * 2u + 1u, mon_hash_str(x.ck, 2)));
                        mon_end();
                    }
                }
            }
            if (ci % (MO.thorough ? 1 : 3) == 0) check_long_lists(&x);
            mon_count0("configs", 1);
        }
        ctx_close(&x);
    }
}

/* ================================================================ C03 */
static void run_reconstruct(int which)
{
    static cfg_t cfgs[1200];
    int nc = 0;
    if (which & 1) {
        add_cfgs(cfgs, &nc, 1200, EC_BACKEND_LIBERASURECODE_RS_VAND, MO.thorough);
        nc += cfgs_xor(cfgs + nc, 1200 - nc);
        nc += cfgs_shss(cfgs + nc, 1200 - nc);
        nc += cfgs_jer(cfgs + nc, 1200 - nc);
        nc += cfgs_phazr(cfgs + nc, 1200 - nc);
    }
    if (which & 2) {
        add_cfgs(cfgs, &nc, 1200, EC_BACKEND_ISA_L_RS_VAND, MO.thorough && which == 2);
        add_cfgs(cfgs, &nc, 1200, EC_BACKEND_ISA_L_RS_CAUCHY, MO.thorough && which == 2);
    }
    static uint32_t es[120000];
    for (int ci = 0; ci < nc; ci++) {
        cfg_t c = cfgs[ci];
        c.ct = (ci % 7 == 3) ? CHKSUM_MD5 : (ci & 1) ? CHKSUM_CRC32 : CHKSUM_NONE;
        int legacy = (ci % 5 == 2);
        lec_env_legacy(legacy ? 3 : 0);
        uint64_t lens[MAXSTR]; int kinds[MAXSTR];
        int nl = std_lengths(&c, lens, kinds, MAXSTR, MO.thorough ? 4 : 3);
        ctx_t x;
        /* note: ctx_open compares with the non-legacy model; in legacy mode skip that by using a local prop trick */
        if (legacy) { /* encode under legacy switch: model comparison is done in C10; here only reconstruct==encode */ }
        int opened = -1;
        if (legacy) {
            /* open without model comparison: emulate by temporarily using null-like check suppression */
            memset(&x, 0, sizeof x); x.c = c; cfg_key(&c, x.ck, sizeof x.ck); strncat(x.ck, ",legacy", sizeof x.ck - strlen(x.ck) - 1);
            code_init(&x.cd, &c); x.desc = -1;
            if (mon_case_all("%s|create", x.ck)) { x.desc = lec_create(&c); if (x.desc <= 0) mon_viol(PROP, "create-failed", "rc=%d", x.desc); mon_end(); }
            for (int i = 0; i < nl && x.desc > 0; i++) {
                if (mon_case_all("%s|encode|len=%llu", x.ck, (unsigned long long)lens[i])) {
                    rng_t r; rng_seed(&r, MO.seed, mon_hash_str(x.ck, lens[i]));
                    uint8_t *d = malloc(lens[i] ? lens[i] : 1);
                    data_fill(d, lens[i], kinds[i], &r, c.k, ref_payload_size(c.be, c.k, lens[i]));
                    if (stripe_make(&x.st[x.nstr], x.desc, &c, d, lens[i]) == 0) { x.data[x.nstr] = d; x.kind[x.nstr] = kinds[i]; x.nstr++; }
                    else { mon_viol(PROP, "encode-failed", "encode failed under legacy switch"); free(d); }
                    mon_end();
                }
            }
            opened = x.nstr > 0 ? 0 : -1;
        } else opened = ctx_open(&x, &c, lens, kinds, nl);
        if (opened == 0) {
            int n = cfg_n(&c), ex = 0;
            uint32_t full = n == 32 ? 0xffffffffu : ((1u << n) - 1);
            rng_t r; rng_seed(&r, MO.seed, mon_hash_str(x.ck, 13));
            int cap = MO.thorough ? (n <= 14 ? 6000 : 600) : (c.be == EC_BACKEND_FLAT_XOR_HD ? 4000 : (n <= 10 ? 400 : 40));
            int ne = gen_esets(n, c.k, cfg_tol(&c), cap, &r, es, &ex);
            for (int e = 0; e < ne; e++) {
                uint32_t present = full & ~es[e];
                int si = e % x.nstr;
                int p = (e / x.nstr) % NPRES;
                char em[128]; mask_str(es[e], n, em, sizeof em);
                int req = must_succeed(&x, present);
                /* every destination for small n / XOR; for large n all erased ones plus a sample of available ones */
                for (int d = 0; d < n; d++) {
                    int erased = (es[e] >> d) & 1;
                    if (!erased && n > 16 && !MO.thorough && (d + e) % 5) continue;
                    if (mon_case("%s|len=%llu|E=%s|pres=%s|dest=%d", x.ck, (unsigned long long)x.st[si].len, em, pres_name[p], d)) {
                        check_reconstruct(&x, si, present, p, d, req);
                        uint64_t h = mon_hash_u64(es[e], mon_hash_str(x.ck, (uint64_t)d));
                        if (erased) mon_distinct("nontrivial", h);
                        mon_count(erased ? "dest_missing" : "dest_available", 1);
                        mon_count(d < c.k ? "dest_data" : "dest_parity", 1);
                        if ((e * n + d) % 4999 == 0)
                            mon_sample("{\"config\":\"%s\",\"len\":%llu,\"erased\":\"%s\",\"destination\":%d,\"presentation\":\"%s\",\"legacy_crc\":%d}",
                                       x.ck, (unsigned long long)x.st[si].len, em, d, pres_name[p], legacy);
                        mon_end();
                    }
                    /* supplied destination that is distinguishable from what this instance would write */
                    if (!erased && (e + d) % 3 == 0) {
                        int variant = 1 + (e / 3 + d) % 3;
                        int pp = p == 3 || p == 4 ? 2 : p;       /* no duplicates: "the supplied copy" must be unique */
                        if (mon_case("%s|len=%llu|E=%s|pres=%s|dest=%d|supplied-variant=%d", x.ck, (unsigned long long)x.st[si].len, em, pres_name[pp], d, variant)) {
                            check_reconstruct_supplied(&x, si, present, pp, d, variant);
                            mon_distinct("nontrivial", mon_hash_u64(es[e] * 4 + (uint64_t)variant, mon_hash_str(x.ck, (uint64_t)d + 1000)));
                            mon_end();
                        }
                    }
                }
                /* rejection clause: out-of-range destinations */
                if (e % 16 == 0) {
                    static const int bad[] = { -1, 0, 1, 0x7fffffff, -0x7fffffff - 1, 64, 1000, -2 };
                    for (size_t b = 0; b < sizeof bad / sizeof bad[0]; b++) {
                        int d = bad[b]; if (b == 1) d = n; if (b == 2) d = n + 1;
                        if (mon_case("%s|len=%llu|E=%s|baddest=%d", x.ck, (unsigned long long)x.st[si].len, em, d)) {
                            check_reconstruct(&x, si, present, 0, d, 0);
                            mon_count("dest_out_of_range", 1);
                            mon_distinct("nontrivial", mon_hash_u64((uint64_t)(uint32_t)d, mon_hash_str(x.ck, 77)));
                            mon_end();
                        }
                    }
                }
            }
            mon_count0("configs", 1);
            if (ex) mon_count0("configs_with_exhaustive_erasure_sets", 1);
        }
        ctx_close(&x);
    }
    lec_env_legacy(0);
}

/* ================================================================ C05 */
typedef xor_code_t *(*init_xor_fn)(int, int, int);

static void run_xor(void)
{
    /* (a) live tables vs golden, transposes */
    void *h = dlopen("libXorcode.so.1", RTLD_NOW);
    init_xor_fn init = h ? (init_xor_fn)dlsym(h, "init_xor_hd_code") : NULL;
    for (int t = 0; t < xor_ntables; t++) {
        const xor_table_t *g = &xor_tables[t];
        if (mon_case_all("flat_xor_hd|k=%d,m=%d,hd=%d|tables", g->k, g->m, g->hd)) {
            if (!init) mon_viol("C05", "no-init-symbol", "init_xor_hd_code not exported by libXorcode.so.1");
            else {
                xor_code_t *xc = init(g->k, g->m, g->hd);
                if (!xc) mon_viol("C05", "table-missing", "init_xor_hd_code refused a supported shape");
                else {
                    for (int j = 0; j < g->m; j++) {
                        mon_count("evaluations", 1);
                        if (xc->parity_bms[j] != g->parity_bms[j])
                            mon_viol("C05", "parity-table-differs", "parity_bms[%d]=%u, golden %u", j, xc->parity_bms[j], g->parity_bms[j]);
                    }
                    for (int i = 0; i < g->k; i++) {
                        mon_count("evaluations", 1);
                        if (xc->data_bms[i] != g->data_bms[i])
                            mon_viol("C05", "data-table-differs", "data_bms[%d]=%u, golden %u", i, xc->data_bms[i], g->data_bms[i]);
                        for (int j = 0; j < g->m; j++)
                            if (((xc->data_bms[i] >> j) & 1) != ((xc->parity_bms[j] >> i) & 1))
                                mon_viol("C05", "tables-not-transposes", "data %d / parity %d disagree", i, j);
                    }
                    mon_count0("tables_compared", 1);
                    free(xc);
                }
            }
            mon_end();
        }
    }
    /* (e) fragments whose payload is a large power of two (64 KiB, 128 KiB; thorough: 256 KiB, 1 MiB) - sizes at which region
     * loops working in blocks have no remainder: a parity rebuilt while a data fragment of its equation is lost as well (the
     * path that re-encodes parity after decoding), with one and with two parities lost, and a plain decode of the same set */
    for (int t = 0; t < xor_ntables; t++) {
        const xor_table_t *g = &xor_tables[t];
        static const uint64_t pays_q[] = { 65536, 131072 }, pays_t[] = { 65536, 131072, 262144, 1048576 };
        const uint64_t *pays = MO.thorough ? pays_t : pays_q; int npay = MO.thorough ? 4 : 2;
        for (int pi = 0; pi < npay; pi++) {
            if (!mon_case("flat_xor_hd|k=%d,m=%d,hd=%d|payload=%llu|parity-rebuilt-with-its-data-lost", g->k, g->m, g->hd, (unsigned long long)pays[pi])) continue;
            cfg_t c = { EC_BACKEND_FLAT_XOR_HD, g->k, g->m, g->hd, 0, CHKSUM_NONE }; int n = g->k + g->m;
            int d = lec_create(&c); uint64_t len = (uint64_t)g->k * pays[pi]; uint8_t *data = malloc(len); rng_t r; rng_seed(&r, MO.seed, 8800 + (uint64_t)t * 8 + (uint64_t)pi); rng_fill(&r, data, len);
            stripe_t st;
            if (d <= 0 || stripe_make(&st, d, &c, data, len) != 0) { mon_viol("C05", "setup-failed", "create/encode of a %llu-byte object failed", (unsigned long long)len); if (d > 0) liberasurecode_instance_destroy(d); free(data); mon_end(); continue; }
            if (st.flen != pays[pi] + 80) mon_viol("C05", "payload-size", "fragment length %llu, expected %llu", (unsigned long long)st.flen, (unsigned long long)pays[pi] + 80);
            uint8_t *o = malloc(st.flen);
            for (int v = 0; v < 3; v++) {
                int p = v == 1 ? g->m - 1 : 0, p2 = (p + 1) % g->m; int dd = __builtin_ctz(g->parity_bms[p]);
                if (v == 2 && g->hd < 4) continue;
                uint32_t er = 1u << (g->k + p) | 1u << dd; if (v == 2) er |= 1u << (g->k + p2);
                char *lst[32]; int cnt = 0; for (int f = 0; f < n; f++) if (!(er >> f & 1)) lst[cnt++] = (char *)st.frag[f];
                for (int f = 0; f < n; f++) if (er >> f & 1) {
                    memset(o, 0x3C, st.flen);
                    int rc = liberasurecode_reconstruct_fragment(d, lst, cnt, st.flen, f, (char *)o);
                    mon_count("evaluations", 1); mon_count("large_pow2_payload_reconstructs", 1);
                    if (rc != 0 || memcmp(o, st.frag[f], st.flen)) mon_viol("C05", "reconstruct-wrong-bytes", "payload %llu, erased 0x%x: reconstruct(%d) rc=%d%s", (unsigned long long)pays[pi], er, f, rc, rc ? "" : ", wrong fragment");
                }
                char *out = NULL; uint64_t ol = 0; int rc = liberasurecode_decode(d, lst, cnt, st.flen, 0, &out, &ol);
                if (rc != 0 || ol != len || memcmp(out, data, len)) mon_viol("C05", "decode-wrong-bytes", "payload %llu, erased 0x%x: decode rc=%d%s", (unsigned long long)pays[pi], er, rc, rc ? "" : ", wrong bytes");
                if (rc == 0) liberasurecode_decode_cleanup(d, out);
            }
            free(o); stripe_free(&st); free(data); liberasurecode_instance_destroy(d);
            mon_distinct("nontrivial", mon_hash_u64((uint64_t)t * 8 + (uint64_t)pi, 8801));
            mon_end();
        }
    }
    /* (d) refusal box */
    for (int k = 0; k <= 33; k++) for (int m = 0; m <= 33; m++) for (int hd = 0; hd <= 7; hd++) {
        const xor_table_t *g = xor_find(k, m, hd);
        if (g) continue;
        if ((k + m + hd) % (MO.thorough ? 1 : 3) != 0 && !(m >= 3 && m <= 6 && (hd == 3 || hd == 4))) continue;
        if (mon_case("flat_xor_hd|k=%d,m=%d,hd=%d|unsupported-create", k, m, hd)) {
            cfg_t c = { EC_BACKEND_FLAT_XOR_HD, k, m, hd, 0, CHKSUM_CRC32 };
            int d = lec_create(&c);
            mon_count("evaluations", 1);
            mon_count("unsupported_shapes_tried", 1);
            if (d > 0) {
                mon_viol("C05", "unsupported-shape-accepted", "create accepted flat-XOR (%d,%d,%d) which is not one of the 38 supported shapes", k, m, hd);
                liberasurecode_instance_destroy(d);
            }
            mon_distinct("nontrivial", mon_hash_u64((uint64_t)(k * 10000 + m * 100 + hd), 5));
            mon_end();
        }
    }
    /* (b)+(c): parity equations, every |E|<hd decode + reconstruct at every destination, several payload residues */
    static const uint64_t payloads_q[] = { 4, 20, 48, 4096 + 12 };
    static const uint64_t payloads_t[] = { 4, 8, 12, 16, 20, 40, 60, 64, 1024, 4096 + 8, 65536 + 4 };
    const uint64_t *pl = MO.thorough ? payloads_t : payloads_q;
    int npl = MO.thorough ? 11 : 4;
    static uint32_t es[4000];
    for (int t = 0; t < xor_ntables; t++) {
        const xor_table_t *g = &xor_tables[t];
        cfg_t c = { EC_BACKEND_FLAT_XOR_HD, g->k, g->m, g->hd, 0, (t & 1) ? CHKSUM_CRC32 : CHKSUM_NONE };
        uint64_t lens[MAXSTR]; int kinds[MAXSTR];
        for (int i = 0; i < npl; i++) { lens[i] = pl[i] * (uint64_t)g->k - (i % 3 == 1 ? 3 : 0); kinds[i] = i % 4 == 2 ? DATA_HIGH : DATA_RANDOM; }
        ctx_t x;
        /* an instance of the PREVIOUS table (another shape) stays alive across the creation of this one and is used again
         * afterwards: the tables of one descriptor are its own */
        static int keep_desc = -1; static cfg_t keep_c; static stripe_t keep_st; static uint8_t *keep_data;
        int opened = ctx_open(&x, &c, lens, kinds, npl) == 0;
        if (keep_desc > 0) {
            if (mon_case_all("%s|used-again-after-%s-was-created", "older-table", x.ck)) {
                int kn = keep_c.k + keep_c.m; rng_t r; rng_seed(&r, MO.seed, (uint64_t)t * 31 + 7);
                for (int q = 0; q < 24; q++) {
                    int perm[32]; for (int i = 0; i < kn; i++) perm[i] = i; rng_shuffle(&r, perm, keep_c.k);       /* data indexes first */
                    int lose = 1 + q % (keep_c.hd - 1); uint32_t er = mask_of(perm, lose);
                    if (q % 3 == 2 && lose >= 2) er = (er & ~(1u << perm[0])) | 1u << (keep_c.k + q % keep_c.m);
                    char *lst[32]; int cnt = 0; for (int f = 0; f < kn; f++) if (!(er >> f & 1)) lst[cnt++] = (char *)keep_st.frag[f];
                    char *out = NULL; uint64_t ol = 0; int rc = liberasurecode_decode(keep_desc, lst, cnt, keep_st.flen, q & 1, &out, &ol);
                    mon_count("evaluations", 1); mon_count("older_table_decodes_after_another_table_was_created", 1);
                    if (rc != 0 || ol != keep_st.len || memcmp(out, keep_data, keep_st.len)) { mon_viol("C05", "older-instance-broken-by-newer-table", "flat-XOR (%d,%d,%d) instance decoding erasures 0x%x after a (%d,%d,%d) instance was created: rc=%d%s", keep_c.k, keep_c.m, keep_c.hd, er, g->k, g->m, g->hd, rc, rc ? "" : ", wrong bytes"); if (rc == 0) liberasurecode_decode_cleanup(keep_desc, out); break; }
                    liberasurecode_decode_cleanup(keep_desc, out);
                    int dest = __builtin_ctz(er); uint8_t *o = malloc(keep_st.flen);
                    rc = liberasurecode_reconstruct_fragment(keep_desc, lst, cnt, keep_st.flen, dest, (char *)o);
                    if (rc != 0 || memcmp(o, keep_st.frag[dest], keep_st.flen)) { mon_viol("C05", "older-instance-broken-by-newer-table", "flat-XOR (%d,%d,%d) instance reconstructing %d (erasures 0x%x) after a (%d,%d,%d) instance was created: rc=%d", keep_c.k, keep_c.m, keep_c.hd, dest, er, g->k, g->m, g->hd, rc); free(o); break; }
                    free(o);
                }
                mon_end();
            }
            stripe_free(&keep_st); free(keep_data); liberasurecode_instance_destroy(keep_desc); keep_desc = -1;
        }
        if (opened) {
            { keep_c = c; keep_desc = lec_create(&keep_c); uint64_t kl = (uint64_t)c.k * 20 + 3; keep_data = malloc(kl); rng_t r; rng_seed(&r, MO.seed, (uint64_t)t + 900); rng_fill(&r, keep_data, kl);
              if (keep_desc <= 0 || stripe_make(&keep_st, keep_desc, &keep_c, keep_data, kl) != 0) { if (keep_desc > 0) liberasurecode_instance_destroy(keep_desc); free(keep_data); keep_desc = -1; } }
            /* parity == XOR of the data the golden equation names (also part of ctx_open's model compare) */
            for (int si = 0; si < x.nstr; si++) {
                if (mon_case("%s|len=%llu|parity-equations", x.ck, (unsigned long long)x.st[si].len)) {
                    stripe_t *s = &x.st[si];
                    uint64_t P = s->flen - 80;
                    const uint8_t *dp[32]; for (int i = 0; i < g->k; i++) dp[i] = s->frag[i] + 80;
                    uint8_t *o = malloc(P ? P : 1);
                    for (int j = 0; j < g->m; j++) {
                        xor_model_parity(g, dp, P, j, o);
                        mon_count("evaluations", 1);
                        if (memcmp(o, s->frag[g->k + j] + 80, P))
                            mon_viol("C05", "parity-not-xor-of-equation", "parity %d is not the XOR of the data its golden equation names (payload %llu)", j, (unsigned long long)P);
                    }
                    free(o);
                    mon_end();
                }
            }
            int n = g->k + g->m, ex = 0;
            uint32_t full = (1u << n) - 1;
            rng_t r; rng_seed(&r, MO.seed, 99);
            int ne = gen_esets(n, g->k, g->hd - 1, 4000, &r, es, &ex);
            /* fragments of half a MiB decoded / reconstructed on a thread with a 192 KiB stack, the erasure set being a data
             * triple that only the P xor Q route can start (what a call needs on the stack does not grow with the payload) */
            if (g->hd == 4 && g->k <= 12 && x.desc > 0) {
                uint32_t t3 = 0;
                for (int a1 = 0; a1 < g->k && !t3; a1++) for (int b1 = a1 + 1; b1 < g->k && !t3; b1++) for (int c1 = b1 + 1; c1 < g->k && !t3; c1++) {
                    uint32_t tt = 1u << a1 | 1u << b1 | 1u << c1; int iso = 0;
                    for (int pp = 0; pp < g->m; pp++) if (__builtin_popcount(g->parity_bms[pp] & tt) == 1) iso = 1;
                    if (!iso) tt ? (t3 = tt) : 0;
                }
                if (t3 && mon_case("%s|large-fragments-on-a-small-stack|E=0x%x", x.ck, t3)) {
                    uint64_t bl = (uint64_t)g->k * 524288 + 4; uint8_t *bdata = malloc(bl); rng_t rb; rng_case(&rb); rng_fill(&rb, bdata, bl);
                    stripe_t bs;
                    if (stripe_make(&bs, x.desc, &c, bdata, bl) != 0) mon_viol("C05", "encode-failed", "encode of %llu bytes failed", (unsigned long long)bl);
                    else {
                        char *lst[32]; int cnt = 0; for (int f = 0; f < n; f++) if (!(t3 >> f & 1)) lst[cnt++] = (char *)bs.frag[f];
                        char *out = NULL; uint64_t ol = 0; uint8_t *of = malloc(bs.flen);
                        callargs_t ca = { x.desc, lst, cnt, bs.flen, 0, &out, &ol, __builtin_ctz(t3), (char *)of };
                        int rc = on_small_stack(do_decode, &ca);
                        mon_count("evaluations", 2); mon_count("large_fragment_calls_on_small_stack", 2);
                        if (rc != 0 || ol != bl || memcmp(out, bdata, bl)) mon_viol("C05", "decode-wrong-bytes", "decode of a P-xor-Q triple with 512 KiB fragments on a 192 KiB stack: rc=%d", rc);
                        if (rc == 0) liberasurecode_decode_cleanup(x.desc, out);
                        rc = on_small_stack(do_reconstruct, &ca);
                        if (rc != 0 || memcmp(of, bs.frag[ca.dest], bs.flen)) mon_viol("C05", "reconstruct-wrong-bytes", "reconstruct(%d) of a P-xor-Q triple with 512 KiB fragments on a 192 KiB stack: rc=%d", ca.dest, rc);
                        free(of); stripe_free(&bs);
                    }
                    free(bdata);
                    mon_distinct("nontrivial", mon_hash_u64(t3, mon_hash_str(x.ck, 5252)));
                    mon_end();
                }
            }
            /* the decoder of libXorcode itself (the entry point the backend wraps), asked to rebuild the lost parity too
             * (decode_parity = 1, what the backend passes) and not to (0): the data comes back exactly either way */
            if (init) {
                xor_code_t *xc = NULL; stripe_t *s = &x.st[t % x.nstr]; uint64_t P = s->flen - 80;
                char *bd[32], *bp[32];
                for (int i = 0; i < n; i++) { void *b = NULL; if (posix_memalign(&b, 16, P ? P : 16)) abort(); if (i < g->k) bd[i] = b; else bp[i - g->k] = b; }
                if (mon_case_all("%s|direct-decoder|setup", x.ck)) { xc = init(g->k, g->m, g->hd); if (!xc) mon_viol("C05", "table-missing", "init_xor_hd_code refused a supported shape"); mon_end(); }
                for (int e = 0; e < ne && xc; e++) for (int dp = 0; dp < 2; dp++) {
                    if ((e + dp) % (MO.thorough ? 1 : 2) && __builtin_popcount(es[e]) > 1) continue;
                    char em[128]; mask_str(es[e], n, em, sizeof em);
                    if (!mon_case("%s|direct-decoder|payload=%llu|E=%s|decode_parity=%d", x.ck, (unsigned long long)P, em, dp)) continue;
                    int miss[40], nm = 0;
                    for (int i = 0; i < n; i++) { char *b = i < g->k ? bd[i] : bp[i - g->k]; if (es[e] >> i & 1) { memset(b, i < g->k ? 0xE1 + i : 0, P); miss[nm++] = i; }   /* parity is accumulated into, as in encode: the caller hands in zeroed parity buffers; lost data buffers hold anything */ else memcpy(b, s->frag[i] + 80, P); }
                    miss[nm] = -1;
                    /* the list is a set: half of the calls hand it over in descending or rotated order */
                    if ((e / 2 + dp) % 3 == 1) for (int i = 0; i < nm / 2; i++) { int t = miss[i]; miss[i] = miss[nm - 1 - i]; miss[nm - 1 - i] = t; }
                    else if ((e / 2 + dp) % 3 == 2 && nm > 1) { int t = miss[0]; for (int i = 0; i + 1 < nm; i++) miss[i] = miss[i + 1]; miss[nm - 1] = t; }
                    if (nm > 1 && miss[0] > miss[1]) mon_count("direct_decoder_calls_with_unsorted_list", 1);
                    int rc = xc->decode(xc, bd, bp, miss, (int)P, dp);
                    mon_count("evaluations", 1); mon_count("direct_decoder_calls", 1);
                    if (rc != 0) mon_viol("C05", "direct-decode-failed", "xor_code decode(decode_parity=%d) returned %d for %d erasures (hd=%d)", dp, rc, nm, g->hd);
                    else for (int i = 0; i < (dp ? n : g->k); i++) if (memcmp(i < g->k ? bd[i] : bp[i - g->k], s->frag[i] + 80, P)) { mon_viol("C05", "direct-decode-wrong-bytes", "xor_code decode(decode_parity=%d): fragment %d differs from the original after decoding E=%s", dp, i, em); break; }
                    /* survivors are inputs: unchanged */
                    for (int i = 0; i < n; i++) if (!(es[e] >> i & 1) && memcmp(i < g->k ? bd[i] : bp[i - g->k], s->frag[i] + 80, P)) { mon_viol("C05", "direct-decode-modified-input", "xor_code decode changed surviving fragment %d", i); break; }
                    mon_distinct("nontrivial", mon_hash_u64(es[e] * 2u + (uint32_t)dp, mon_hash_str(x.ck, 31)));
                    mon_end();
                }
                for (int i = 0; i < n; i++) free(i < g->k ? bd[i] : bp[i - g->k]);
                if (xc) free(xc);
            }
            for (int e = 0; e < ne; e++) {
                uint32_t present = full & ~es[e];
                char em[128]; mask_str(es[e], n, em, sizeof em);
                int nsz = MO.thorough ? x.nstr : 2;
                for (int q = 0; q < nsz; q++) {
                    int si = (e + q * 3) % x.nstr;
                    int p = (e + q) % NPRES;
                    if (mon_case("%s|payload=%llu|E=%s|pres=%s|decode", x.ck, (unsigned long long)(x.st[si].flen - 80), em, pres_name[p])) {
                        check_decode(&x, si, present, p, 0, 1, "xor");
                        mon_distinct("nontrivial", mon_hash_u64(es[e] * 4u + (uint32_t)((x.st[si].flen - 80) % 16) / 4u, mon_hash_str(x.ck, 3)));
                        if (e % 1231 == 0) mon_sample("{\"config\":\"%s\",\"payload\":%llu,\"erased\":\"%s\",\"op\":\"decode\",\"sse2\":\"%s\"}", x.ck, (unsigned long long)(x.st[si].flen - 80), em, MO.mode);
                        mon_end();
                    }
                }
                int si = e % x.nstr;
                for (int d = 0; d < n; d++) {
                    int erased = (es[e] >> d) & 1;
                    if (!erased && (d + e) % 6) continue;
                    if (mon_case("%s|payload=%llu|E=%s|reconstruct|dest=%d", x.ck, (unsigned long long)(x.st[si].flen - 80), em, d)) {
                        check_reconstruct(&x, si, present, e % NPRES, d, 1);
                        if (erased) mon_distinct("nontrivial", mon_hash_u64(es[e] * 64u + (uint32_t)d, mon_hash_str(x.ck, 4)));
                        mon_end();
                    }
                }
            }
            if (ex) mon_count0("tables_with_exhaustive_erasure_sets", 1);
        }
        ctx_close(&x);
    }
}

/* ================================================================ C06 */
static void check_needed(ctx_t *x, const int *R, int nr, const int *X, int nx, int within)
{
    int n = cfg_n(&x->c), k = x->c.k;
    /* output array exactly n+1 ints, ending at a guard page, sentinel pre-fill */
    int *out = g_alloc(sizeof(int) * (size_t)(n + 1), G_END);
    for (int i = 0; i <= n; i++) out[i] = 0x7f7f7f7f;
    int *rl = g_alloc(sizeof(int) * (size_t)(nr + 1), G_END);
    int *xl = g_alloc(sizeof(int) * (size_t)(nx + 1), G_END);
    memcpy(rl, R, sizeof(int) * (size_t)nr); rl[nr] = -1;
    memcpy(xl, X, sizeof(int) * (size_t)nx); xl[nx] = -1;
    g_ro(rl); g_ro(xl);
    int rc = liberasurecode_fragments_needed(x->desc, rl, xl, out);
    mon_count("evaluations", 1);
    mon_count("fragments_needed_calls", 1);
    uint32_t rm = mask_of(R, nr), xm = mask_of(X, nx);
    if (rc == 0) {
        mon_count("fragments_needed_rc0", 1);
        int len = -1;
        for (int i = 0; i <= n; i++) if (out[i] == -1) { len = i; break; }
        if (len < 0) mon_viol(PROP, "needed-not-terminated", "no -1 terminator within k+m+1 slots");
        else {
            uint32_t seen = 0; int bad = 0;
            for (int i = 0; i < len && !bad; i++) {
                int v = out[i];
                if (v < 0 || v >= n) { mon_viol(PROP, "needed-out-of-range", "index %d outside 0..%d", v, n - 1); bad = 1; break; }
                if (seen >> v & 1) { mon_viol(PROP, "needed-duplicate", "index %d listed twice", v); bad = 1; break; }
                seen |= 1u << v;
            }
            if (!bad && (seen & rm)) { mon_viol(PROP, "needed-contains-requested", "answer 0x%x contains a fragment to reconstruct (R=0x%x)", seen, rm); bad = 1; }
            if (!bad && (seen & xm)) { mon_viol(PROP, "needed-contains-excluded", "answer 0x%x contains an excluded fragment (X=0x%x)", seen, xm); bad = 1; }
            if (!bad) {
                int sel[32]; int ns = list_of(seen, n, sel);
                /* ISA-L Vandermonde shapes that are not MDS: the adapter's "first k survivors" may be a
                 * singular row set; C19 only speaks about survivor sets whose rows are invertible */
                int exempt = x->c.be == EC_BACKEND_ISA_L_RS_VAND && ns == k && code_rank(&x->cd, sel, ns) < k;
                if (exempt) mon_count("needed_singular_firstk_not_required", 1);
                for (int i = 0; i < nr && !exempt; i++)
                    if (!code_spans(&x->cd, sel, ns, R[i])) { mon_viol(PROP, "needed-insufficient", "fragment %d cannot be computed from the returned set 0x%x", R[i], seen); bad = 1; break; }
                if (!bad && cfg_is_rs(&x->c) && len != k) { mon_viol(PROP, "needed-wrong-count", "Reed-Solomon answer has %d indexes, k=%d", len, k); bad = 1; }
                /* follow-up: reconstruct each requested fragment from exactly N where the front end allows it */
                if (!bad && x->nstr > 0 && n - ns <= x->c.m) {
                    int req = must_succeed(x, seen);
                    for (int i = 0; i < nr; i++) {
                        /* a flat-XOR parity all of whose equation members are in the returned set is one XOR pass away, however
                         * many other fragments are absent: the follow-up must succeed there as well (the front end wants k) */
                        int req_i = req;
                        if (!req_i && x->c.be == EC_BACKEND_FLAT_XOR_HD && x->cd.xt && R[i] >= k && ns >= k && (x->cd.xt->parity_bms[R[i] - k] & ~seen) == 0) { req_i = 1; mon_count("followup_parity_with_whole_equation_present", 1); }
                        check_reconstruct(x, 0, seen, (int)(mon_case_idx % NPRES), R[i], req_i); mon_count("followup_reconstructs", 1); }
                }
            }
        }
    } else if (rc > 0) {
        mon_viol(PROP, "needed-positive-rc", "fragments_needed returned %d", rc);
    } else {
        mon_count("fragments_needed_err", 1);
        if (within) mon_viol(PROP, "needed-refused", "fragments_needed returned %d although |R|+|X| is within tolerance", rc);
    }
    g_free(out); g_free(rl); g_free(xl);
}

static void check_needed(ctx_t *x, const int *R, int nr, const int *X, int nx, int within);

static void emit_query(ctx_t *x, const int *U, int s, uint32_t sp, long emitted)
{
    int R[32], X[32], nr = 0, nx = 0;
    for (int i = 0; i < s; i++) if (sp >> i & 1) R[nr++] = U[i]; else X[nx++] = U[i];
    int order = (int)(emitted % 3);
    if (order == 1) { for (int i = 0; i < nr / 2; i++) { int t = R[i]; R[i] = R[nr - 1 - i]; R[nr - 1 - i] = t; }
                      for (int i = 0; i < nx / 2; i++) { int t = X[i]; X[i] = X[nx - 1 - i]; X[nx - 1 - i] = t; } }
    else if (order == 2) { rng_t r2; rng_seed(&r2, MO.seed, (uint64_t)emitted); rng_shuffle(&r2, R, nr); rng_shuffle(&r2, X, nx); }
    char rs[160], xs[160]; char *q = rs; q += sprintf(q, "["); for (int i = 0; i < nr; i++) q += sprintf(q, "%s%d", i ? "," : "", R[i]); sprintf(q, "]");
    q = xs; q += sprintf(q, "["); for (int i = 0; i < nx; i++) q += sprintf(q, "%s%d", i ? "," : "", X[i]); sprintf(q, "]");
    if (mon_case("%s|R=%s|X=%s", x->ck, rs, xs)) {
        check_needed(x, R, nr, X, nx, 1);
        mon_distinct("nontrivial", mon_hash_u64(mask_of(R, nr) * 3u + (uint32_t)order, mon_hash_u64(mask_of(X, nx), mon_hash_str(x->ck, 6))));
        if (nx) mon_count("queries_with_exclusions", 1);
        if (nr > 1) mon_count("queries_multi_reconstruct", 1);
        if (emitted % 3001 == 0) mon_sample("{\"config\":\"%s\",\"reconstruct\":\"%s\",\"exclude\":\"%s\"}", x->ck, rs, xs);
        mon_end();
    }
}

static void run_needed(int which)
{
    static cfg_t cfgs[1200];
    int nc = 0;
    if (which & 1) {
        add_cfgs(cfgs, &nc, 1200, EC_BACKEND_LIBERASURECODE_RS_VAND, MO.thorough);
        nc += cfgs_xor(cfgs + nc, 1200 - nc);
        nc += cfgs_shss(cfgs + nc, 1200 - nc);
        nc += cfgs_jer(cfgs + nc, 1200 - nc);
        nc += cfgs_phazr(cfgs + nc, 1200 - nc);
    }
    if (which & 2) {
        add_cfgs(cfgs, &nc, 1200, EC_BACKEND_ISA_L_RS_VAND, MO.thorough && which == 2);
        add_cfgs(cfgs, &nc, 1200, EC_BACKEND_ISA_L_RS_CAUCHY, MO.thorough && which == 2);
    }
    for (int ci = 0; ci < nc; ci++) {
        cfg_t c = cfgs[ci];
        uint64_t lens[MAXSTR]; int kinds[MAXSTR];
        int nl = std_lengths(&c, lens, kinds, MAXSTR, 1);
        ctx_t x;
        if (ctx_open(&x, &c, lens, kinds, nl) == 0) {
            int n = cfg_n(&c), tol = cfg_tol(&c);
            rng_t r; rng_seed(&r, MO.seed, mon_hash_str(x.ck, 14));
            /* enumerate U = R u X with |U|<=tol (exhaustive when small), then every split into R (non-empty) and X */
            uint64_t total = 0;
            for (int s = 1; s <= tol; s++) total += binom(n, s) * ((1ull << s) - 1);
            int cap = MO.thorough ? 60000 : (c.be == EC_BACKEND_FLAT_XOR_HD ? 30000 : 2500);
            int exhaustive = total <= (uint64_t)cap;
            if (exhaustive) mon_count0("configs_exhaustive_RX", 1);
            long emitted = 0;
            if (exhaustive) {
                for (int s = 1; s <= tol; s++) {
                    int cb[32]; comb_first(cb, s);
                    do {
                        for (uint32_t sp = 1; sp < (1u << s); sp++) emit_query(&x, cb, s, sp, emitted++);
                    } while (comb_next(cb, s, n));
                }
            } else {
                for (int i = 0; i < cap; i++) {
                    int s = 1 + (int)rng_below(&r, (uint32_t)tol);
                    if (rng_below(&r, 3) == 0) s = tol;
                    int perm[32]; for (int q = 0; q < n; q++) perm[q] = q;
                    rng_shuffle(&r, perm, n);
                    uint32_t sp = 1 + rng_below(&r, (s >= 31 ? 0x7fffffffu : (1u << s)) - 1);
                    emit_query(&x, perm, s, sp, emitted++);
                }
            }
            /* the same fragment named more than once - repeated inside a list, or listed both as to-rebuild and as excluded
             * ("do not offer me the one I am rebuilding").  C06 quantifies over disjoint lists, so there such a query is judged
             * only by "an error rather than a wrong list" (flat-XOR counts list entries and refuses some of them); C19 quantifies
             * over erasure *sets* |E| <= m, and the set named here is within tolerance, so the ISA-L adapters must answer it */
            int nrep = MO.thorough ? 600 : 80;
            for (int b = 0; b < nrep; b++) {
                int s = 1 + (int)rng_below(&r, (uint32_t)tol);
                int perm[32]; for (int i = 0; i < n; i++) perm[i] = i;
                rng_shuffle(&r, perm, n);
                int nr0 = 1 + (int)rng_below(&r, (uint32_t)s), nx0 = s - nr0;
                int R[40], X[40], nr = 0, nx = 0;
                for (int i = 0; i < nr0; i++) R[nr++] = perm[i];
                for (int i = 0; i < nx0; i++) X[nx++] = perm[nr0 + i];
                int how = (int)rng_below(&r, 4);
                if (how == 0 || how == 3) { int extra = 1 + (int)rng_below(&r, 3); for (int i = 0; i < extra && nx < 36; i++) X[nx++] = R[rng_below(&r, (uint32_t)nr0)]; }        /* requested also excluded */
                if (how == 1 || how == 3) { int extra = 1 + (int)rng_below(&r, (uint32_t)(c.m + 1)); for (int i = 0; i < extra && nx < 36 && nx > 0; i++) X[nx++] = X[rng_below(&r, (uint32_t)nx)]; }   /* excluded repeated */
                if (how == 2) { int extra = 1 + (int)rng_below(&r, 3); for (int i = 0; i < extra && nr < 36; i++) R[nr++] = R[rng_below(&r, (uint32_t)nr)]; }               /* requested repeated */
                if (nr == nr0 && nx == nx0) continue;
                /* never more than k+m entries in all: what a list longer than the stripe means is outside every property
                 * (flat-XOR copies both lists into k+m+1 slots; see DESIGN 8) */
                while (nr + nx > n && nx > 0) nx--;
                while (nr + nx > n && nr > 1) nr--;
                rng_shuffle(&r, X, nx);
                char rs[200] = "", xs[200] = ""; char *q = rs; q += sprintf(q, "["); for (int i = 0; i < nr; i++) q += sprintf(q, "%s%d", i ? "," : "", R[i]); sprintf(q, "]");
                q = xs; q += sprintf(q, "["); for (int i = 0; i < nx; i++) q += sprintf(q, "%s%d", i ? "," : "", X[i]); sprintf(q, "]");
                if (mon_case("%s|repeated|R=%s|X=%s", x.ck, rs, xs)) {
                    check_needed(&x, R, nr, X, nx, which == 2);
                    mon_count("queries_with_repeated_or_overlapping_indexes", 1);
                    mon_end();
                }
            }
            /* beyond tolerance: an error or a list that still satisfies every clause */
            int nb = MO.thorough ? 400 : 60;
            for (int b = 0; b < nb; b++) {
                int s = tol + 1 + (int)rng_below(&r, (uint32_t)(n - tol));
                if (s > n) s = n;
                int perm[32]; for (int i = 0; i < n; i++) perm[i] = i;
                rng_shuffle(&r, perm, n);
                int nr = 1 + (int)rng_below(&r, (uint32_t)s); int nx = s - nr;
                char rs[160] = "", xs[160] = ""; char *q = rs; q += sprintf(q, "["); for (int i = 0; i < nr; i++) q += sprintf(q, "%s%d", i ? "," : "", perm[i]); sprintf(q, "]");
                q = xs; q += sprintf(q, "["); for (int i = 0; i < nx; i++) q += sprintf(q, "%s%d", i ? "," : "", perm[nr + i]); sprintf(q, "]");
                if (mon_case("%s|beyond|R=%s|X=%s", x.ck, rs, xs)) {
                    check_needed(&x, perm, nr, perm + nr, nx, 0);
                    mon_count("queries_beyond_tolerance", 1);
                    mon_end();
                }
                /* a list entry that is not a fragment of the stripe (k+m, k+m+1, 31): "an error rather than a wrong list", every
                 * time it is asked */
                if (b % 6 == 0 && n < 31) {
                    int R2[4] = { perm[0], -1, -1, -1 }, X2[4] = { -1, -1, -1, -1 }, nr2 = 1, nx2 = 0;
                    int bad = b % 18 == 0 ? n : b % 18 == 6 ? (n + 1 <= 31 ? n + 1 : n) : 31;
                    if (b % 12 == 0) R2[nr2++] = bad; else X2[nx2++] = bad;
                    for (int rep = 0; rep < 2; rep++) if (mon_case("%s|index-beyond-stripe|R=[%d%s]|X=[%s]|ask#%d", x.ck, R2[0], nr2 > 1 ? ",bad" : "", nx2 ? "bad" : "", rep)) {
                        int *out = g_alloc(sizeof(int) * (size_t)(n + 1), G_END);
                        for (int i = 0; i <= n; i++) out[i] = 0x7f7f7f7f;
                        int rc = liberasurecode_fragments_needed(x.desc, R2, X2, out);
                        mon_count("evaluations", 1); mon_count("queries_with_index_beyond_stripe", 1);
                        if (rc > 0) mon_viol(PROP, "needed-positive-rc", "fragments_needed returned %d", rc);
                        if (rc == 0) { int len = -1; for (int i = 0; i <= n; i++) if (out[i] == -1) { len = i; break; }
                                       if (len < 0) mon_viol(PROP, "needed-not-terminated", "query naming fragment %d of a %d-fragment stripe answered 0 without a terminated list", bad, n);
                                       else for (int i = 0; i < len; i++) if (out[i] < 0 || out[i] >= n || out[i] == R2[0]) { mon_viol(PROP, "needed-out-of-range", "query naming fragment %d answered 0 with index %d in the list", bad, out[i]); break; } }
                        g_free(out);
                        mon_end();
                    }
                }
            }
            mon_count0("configs", 1);
        }
        ctx_close(&x);
    }
}

/* ================================================================ C20 */
enum { DMG_PAYLOAD_BIT, DMG_IDX_RANGE, DMG_BACKEND_ID, DMG_BACKEND_VER, DMG_LIB_VER, DMG_OTHER_ENDIAN, DMG_KINDS, DMG_HDR_UNSEALED = DMG_KINDS };
static const char *dmg_name[] = { "payload-bit", "idx-out-of-range", "backend-id", "backend-version", "libver-newer", "opposite-endian", "header-bit-unsealed" };

/* a fragment that is invalid only by a header field also carries OTHER payload bytes under a matching payload checksum (a
 * fragment of some other object): if it were used after all, the result would differ */
static void other_payload(uint8_t *f, uint64_t flen, rng_t *r)
{
    if (flen <= 80 || f[REF_OFF_CT] != REF_CT_CRC32) return;
    uint32_t P = ref_get32(f + REF_OFF_SIZE); if ((uint64_t)P > flen - 80 || P == 0) return;
    int legacy = ref_get32(f + REF_OFF_CHKSUM) == crc_legacy(f + 80, P) && ref_get32(f + REF_OFF_CHKSUM) != crc_std(f + 80, P);
    int nb = 1 + (int)rng_below(r, 4);
    for (int i = 0; i < nb; i++) f[80 + rng_below(r, P)] ^= (uint8_t)(1 + rng_below(r, 255));
    ref_put32(f + REF_OFF_CHKSUM, legacy ? crc_legacy(f + 80, P) : crc_std(f + 80, P));
}

static void damage(uint8_t *f, uint64_t flen, int kind, rng_t *r, int n)
{
    switch (kind) {
    case DMG_PAYLOAD_BIT: if (flen > 80) { uint64_t b = 80 + rng_below(r, (uint32_t)(flen - 80)); f[b] ^= (uint8_t)(1u << rng_below(r, 8)); } break;
    case DMG_IDX_RANGE: { /* an index beyond the stripe: just beyond, or the fragment's own index with high bits set (what a
                           * narrower or signed reading would take for a legal one), or the top of the 32-bit range */
        other_payload(f, flen, r); uint32_t own = ref_get32(f + REF_OFF_IDX), v;
        switch (rng_below(r, 10)) {
        case 0: v = 0x80000000u | own; break;
        case 1: v = 0xffffffffu - rng_below(r, 40); break;
        case 2: v = 0x7fffffffu - rng_below(r, 3); break;
        case 3: v = own + 0x100u * (1 + rng_below(r, 3)); break;
        case 4: v = own + 0x10000u; break;
        case 5: v = 0x80000000u + rng_below(r, 64); break;
        default: v = (uint32_t)(n + 1 + (int)rng_below(r, 5)); break;
        }
        ref_put32(f + REF_OFF_IDX, v); ref_hdr_reseal(f, 0); } break;
    case DMG_BACKEND_ID: other_payload(f, flen, r); f[REF_OFF_BEID] ^= (uint8_t)(1 + rng_below(r, 7)); ref_hdr_reseal(f, 0); break;
    case DMG_BACKEND_VER: other_payload(f, flen, r); ref_put32(f + REF_OFF_BEVER, ref_get32(f + REF_OFF_BEVER) + 1); ref_hdr_reseal(f, 0); break;
    case DMG_LIB_VER: other_payload(f, flen, r); ref_put32(f + REF_OFF_LIBVER, ref_get32(f + REF_OFF_LIBVER) + 1 + (rng_below(r, 2) ? 0x010000u : 0)); ref_hdr_reseal(f, 0); break;
    case DMG_OTHER_ENDIAN: { /* a perfectly sealed fragment of a host of the other byte order (other object): validation of a
                              * stripe accepts host-order fragments only */
        other_payload(f, flen, r); ref_hdr_reseal(f, 0); uint8_t t[REF_HDR_LEN]; ref_hdr_twin(f, t, 0); memcpy(f, t, REF_HDR_LEN); } break;
    case DMG_HDR_UNSEALED: {
        /* a metadata bit flipped and NOT re-sealed (index, size, logical size or checksum type), on a fragment stamped with the
         * running version, or with 1.2.0 / 1.2.1 - the oldest writers whose header checksum is verified */
        static const int at[] = { REF_OFF_IDX, REF_OFF_IDX, REF_OFF_SIZE, REF_OFF_ORIG, REF_OFF_CT, REF_OFF_CHKSUM };
        static const uint32_t vs[] = { 0, 0x010200, 0x010201, 0x010200 };
        uint32_t v = vs[rng_below(r, 4)];
        if (v) { ref_put32(f + REF_OFF_LIBVER, v); ref_hdr_reseal(f, 0); }
        f[at[rng_below(r, 6)]] ^= (uint8_t)(1u << rng_below(r, 3));
    } break;
    }
}

static void run_force(int which)
{
    static cfg_t cfgs[1200];
    int nc = 0;
    if (which & 1) {
        add_cfgs(cfgs, &nc, 1200, EC_BACKEND_LIBERASURECODE_RS_VAND, 0);
        nc += cfgs_xor(cfgs + nc, 1200 - nc);
        nc += cfgs_shss(cfgs + nc, 1200 - nc);
        nc += cfgs_jer(cfgs + nc, 1200 - nc);
        nc += cfgs_phazr(cfgs + nc, 1200 - nc);
    }
    if (which & 2) {
        add_cfgs(cfgs, &nc, 1200, EC_BACKEND_ISA_L_RS_VAND, 0);
        add_cfgs(cfgs, &nc, 1200, EC_BACKEND_ISA_L_RS_CAUCHY, 0);
    }
    for (int ci = 0; ci < nc; ci++) {
        cfg_t c = cfgs[ci];
        c.ct = CHKSUM_CRC32;
        uint64_t lens[MAXSTR]; int kinds[MAXSTR];
        int nl = std_lengths(&c, lens, kinds, MAXSTR, 3);
        for (int i = 0; i < nl; i++) if (lens[i] == 0) lens[i] = 7;   /* payload damage needs a payload */
        ctx_t x;
        if (ctx_open(&x, &c, lens, kinds, nl) == 0) {
            int n = cfg_n(&c), k = c.k;
            uint32_t full = n == 32 ? 0xffffffffu : ((1u << n) - 1);
            int ncases = MO.thorough ? (n <= 12 ? 1500 : 300) : (n <= 12 ? 160 : 40);
            /* a second instance of the same code created with another checksum type: fragments are validated by what
             * THEY record (checksum type CRC32), whichever instance reads them */
            int desc2 = -1;
            if (mon_case_all("%s|create-reader-instance", x.ck)) { cfg_t c2 = c; c2.ct = (ci & 1) ? CHKSUM_NONE : CHKSUM_MD5; desc2 = lec_create(&c2); if (desc2 <= 0) mon_viol("C20", "create-failed", "reader instance rc=%d", desc2); mon_end(); }
            for (int e = 0; e < ncases; e++) {
                rng_t r; rng_seed(&r, MO.seed, mon_hash_str(x.ck, (uint64_t)e));
                /* survivors S: classes = all present, all data present (fast path), exactly-k-ish, random within/beyond */
                uint32_t S;
                int cls = e % 5;
                int perm[32]; for (int i = 0; i < n; i++) perm[i] = i;
                rng_shuffle(&r, perm, n);
                if (cls == 0) S = full;
                else if (cls == 1) S = ((1u << k) - 1) | (full & (uint32_t)rng_u64(&r));
                else if (cls == 2) S = full & ~mask_of(perm, cfg_tol(&c));
                else S = full & ~mask_of(perm, (int)rng_below(&r, (uint32_t)cfg_tol(&c) + 1));
                /* damaged subset B of S: |B| in 1..3 (0 occasionally) */
                int sl[32]; int ns = list_of(S, n, sl);
                rng_shuffle(&r, sl, ns);
                int nb = e % 11 == 0 ? 0 : 1 + (int)rng_below(&r, 3);
                if (nb > ns) nb = ns;
                uint32_t Bm = mask_of(sl, nb);
                int kinds_b[4];
                for (int i = 0; i < nb; i++) kinds_b[i] = (int)rng_below(&r, DMG_KINDS);
                int si = e % x.nstr; stripe_t *s = &x.st[si];
                /* stripes whose fragments 0 / 1 carry the stored checksum values 0 / ffffffff: payload damage to exactly those */
                if (x.kind[si] == DATA_CRC0 && nb >= 1 && e % 2 == 1) {
                    int t = (e / 2) % 2 < k ? (e / 2) % 2 : 0;
                    if (S >> t & 1) { for (int i = 0; i < ns; i++) if (sl[i] == t) { sl[i] = sl[0]; sl[0] = t; break; } kinds_b[0] = DMG_PAYLOAD_BIT; Bm = mask_of(sl, nb); mon_count("cases_damaging_a_fragment_whose_stored_checksum_is_0_or_ffffffff", 1); }
                }
                int p = e % NPRES;
                char sm[128], bm[128]; mask_str(full & ~S, n, sm, sizeof sm); mask_str(Bm, n, bm, sizeof bm);
                char kd[96] = ""; for (int i = 0; i < nb; i++) { strcat(kd, i ? "+" : ""); strcat(kd, dmg_name[kinds_b[i]]); }
                if (!mon_case("%s|len=%llu|missing=%s|damaged=%s|kinds=%s|pres=%s", x.ck, (unsigned long long)s->len, sm, bm, kd, pres_name[p])) continue;
                int idx[PRES_MAX];
                int cnt = pres_indexes(p, S, n, &r, idx);
                pres_t pr; pres_build(&pr, s, idx, cnt, pres_almode(p), 0, &r);
                /* in half of the cases every presented fragment is validated while it is still intact (those that will be
                 * damaged last), and damaged in place afterwards: a verdict must be about the bytes as they are at the call */
                if (e % 2 == 0) {
                    for (int pass = 0; pass < 2; pass++) for (int i = 0; i < cnt; i++) {
                        int will = 0; for (int b = 0; b < nb; b++) if (idx[i] == sl[b]) will = 1;
                        if (will != pass) continue;
                        fragment_metadata_t md; int bad = is_invalid_fragment(x.desc, pr.ptr[i]); int mr = liberasurecode_get_fragment_metadata(pr.ptr[i], &md);
                        if (bad || mr != 0 || md.chksum_mismatch) { mon_viol("C20", "pristine-fragment-invalid", "fragment %d as encode wrote it does not validate (is_invalid=%d, query rc=%d, mismatch=%d)", idx[i], bad, mr, md.chksum_mismatch); break; }
                    }
                    mon_count("cases_validated_before_damage_in_place", 1);
                }
                /* apply damage to every presented copy of a damaged index */
                for (int i = 0; i < cnt; i++)
                    for (int b = 0; b < nb; b++)
                        if (idx[i] == sl[b]) { rng_t rd; rng_seed(&rd, MO.seed, (uint64_t)(e * 131 + b)); damage((uint8_t *)pr.ptr[i], s->flen, kinds_b[b], &rd, n); }
                uint32_t valid = S & ~Bm;
                /* decoys: an extra, damaged copy of an index whose good copy is also in the list, placed before or
                 * after it (the valid set does not change: the good copy passes validation, the decoy must not count) */
                int ndecoy = 0; char dk[96] = "";
                if (e % 3 == 1 && cnt > 0 && cnt < PRES_MAX - 4) {
                    int want = 1 + (int)rng_below(&r, 2);
                    for (int q = 0; q < want; q++) {
                        int src = (int)rng_below(&r, (uint32_t)cnt);
                        if (!((valid >> idx[src]) & 1)) continue;
                        void *bb = NULL; if (posix_memalign(&bb, 16, s->flen + 16)) abort();
                        int mis = rng_below(&r, 2) ? 0 : 1 + (int)rng_below(&r, 15);
                        memcpy((uint8_t *)bb + mis, s->frag[idx[src]], s->flen);
                        int kd2 = (int)rng_below(&r, DMG_KINDS);
                        rng_t rd; rng_seed(&rd, MO.seed, (uint64_t)(e * 977 + q)); damage((uint8_t *)bb + mis, s->flen, kd2, &rd, n);
                        int pos = rng_below(&r, 2) ? (int)rng_below(&r, (uint32_t)src + 1) : src + 1 + (int)rng_below(&r, (uint32_t)(cnt - src));
                        memmove(&pr.ptr[pos + 1], &pr.ptr[pos], sizeof(pr.ptr[0]) * (size_t)(cnt - pos));
                        memmove(&pr.base[pos + 1], &pr.base[pos], sizeof(pr.base[0]) * (size_t)(cnt - pos));
                        memmove(&pr.kind[pos + 1], &pr.kind[pos], sizeof(pr.kind[0]) * (size_t)(cnt - pos));
                        memmove(&idx[pos + 1], &idx[pos], sizeof(idx[0]) * (size_t)(cnt - pos));
                        pr.ptr[pos] = (char *)bb + mis; pr.base[pos] = bb; pr.kind[pos] = 0; idx[pos] = idx[src + (pos <= src)];
                        cnt++; pr.n = cnt; ndecoy++;
                        snprintf(dk + strlen(dk), sizeof dk - strlen(dk), "%s%s@%s", q ? "+" : "", dmg_name[kd2], pos <= src ? "before" : "after");
                    }
                    mon_count("cases_with_damaged_duplicate_of_a_valid_index", ndecoy ? 1 : 0);
                }
                int within = must_succeed(&x, valid);
                /* one case in eight: the first damaged fragment carries an un-sealed header edit instead.  C20 quantifies the "must
                 * succeed" half over payload and re-sealed damage only (a broken seal makes decode refuse the whole call), so for
                 * these only "an error or the original bytes, never other bytes" is judged */
                if (e % 8 == 5 && nb >= 1) {
                    for (int i = 0; i < cnt; i++) if (idx[i] == sl[0]) { memcpy(pr.ptr[i], s->frag[idx[i]], s->flen); rng_t rd; rng_seed(&rd, MO.seed, (uint64_t)(e * 977 + 3)); damage((uint8_t *)pr.ptr[i], s->flen, DMG_HDR_UNSEALED, &rd, n); }
                    within = 0; strncat(kd, "+header-bit-unsealed", sizeof kd - strlen(kd) - 1); mon_count("cases_with_unsealed_header_damage", 1);
                }
                char *out = NULL; uint64_t outlen = 0;
                int other_reader = desc2 > 0 && e % 4 == 3;
                if (other_reader) { mon_count("cases_read_through_instance_with_other_checksum_type", 1); strncat(dk, dk[0] ? "+other-ct-reader" : "other-ct-reader", sizeof dk - strlen(dk) - 1); }
                /* "asks decode to force metadata checks" = any non-zero value of the int flag */
                static const int fvals[] = { 1, -1, 2, 1, 0x100, -0x7fffffff - 1, 1, 0x7fffffff };
                int fval = fvals[e % 8];
                int rc = liberasurecode_decode(other_reader ? desc2 : x.desc, pr.ptr, cnt, s->flen, fval, &out, &outlen);
                mon_count("evaluations", 1);
                if (rc == 0) {
                    int exact = outlen == s->len && (s->len == 0 || !memcmp(out, s->data, s->len));
                    if (!exact) mon_viol("C20", "forced-decode-wrong-bytes", "decode(force=%d) returned 0 with bytes/length different from the original (damaged=%s kinds=%s valid=0x%x decoys=%s)", fval, bm, kd, valid, dk);
                    liberasurecode_decode_cleanup(other_reader ? desc2 : x.desc, out);
                    mon_count(within ? "force_ok_within" : "force_ok_beyond_exact", 1);
                } else if (rc > 0) mon_viol("C20", "forced-decode-positive-rc", "rc=%d", rc);
                else {
                    if (within) mon_viol("C20", "forced-decode-refused", "decode(force=%d) returned %d although the valid fragments 0x%x alone are within tolerance (damaged=%s kinds=%s decoys=%s)", fval, rc, valid, bm, kd, dk);
                    mon_count(within ? "force_err_within" : "force_err_beyond", 1);
                }
                if (nb) mon_distinct("nontrivial", mon_hash_u64(S, mon_hash_u64(Bm * 7u + (uint32_t)kinds_b[0], mon_hash_str(x.ck, 8))));
                if (e % 97 == 0) mon_sample("{\"config\":\"%s\",\"len\":%llu,\"missing\":\"%s\",\"damaged\":\"%s\",\"damage\":\"%s\",\"valid_within_tolerance\":%d,\"rc\":%d}", x.ck, (unsigned long long)s->len, sm, bm, kd, within, rc);
                pres_free(&pr);
                mon_end();
            }
            mon_count0("configs", 1);
            if (desc2 > 0 && mon_case_all("%s|destroy-reader-instance", x.ck)) { liberasurecode_instance_destroy(desc2); mon_end(); }
        }
        ctx_close(&x);
    }
}

/* ================================================================ C04 */
typedef int (*vdec_fn)(int *, char **, char **, int, int, int *, int, int);
typedef int (*vrec_fn)(int *, char **, char **, int, int, int *, int, int);
/* the rs_vand plug-in's own decode / reconstruct entry points (the ones the backend wraps) on a generator matrix: decode asked
 * to rebuild the lost parity too (what the backend passes) and not to, the missing list ascending and descending: "any k of
 * the k+m fragments determine the data" and every fragment is rebuilt exactly */
static void direct_rs_plugin_checks(const char *prop, int *g, int k, int m, vdec_fn vdec, vrec_fn vrec)
{
    int n = k + m;
    enum { BS = 48 };
    char *bd[32], *bp[32]; uint8_t orig[32][BS];
    rng_t r; rng_case(&r);
    for (int i = 0; i < k; i++) rng_fill(&r, orig[i], BS);
    { const uint8_t *dp[32]; for (int i = 0; i < k; i++) dp[i] = orig[i]; for (int j = 0; j < m; j++) rs_model_parity(k, m, dp, BS, k + j, orig[k + j]); }
    for (int i = 0; i < n; i++) { void *b = NULL; if (posix_memalign(&b, 16, BS)) abort(); if (i < k) bd[i] = b; else bp[i - k] = b; }
    int tries = MO.thorough ? 40 : 10;
    for (int t = 0; t < tries; t++) {
        int perm[32]; for (int i = 0; i < n; i++) perm[i] = i;
        rng_shuffle(&r, perm, n);
        int lose = 1 + (int)rng_below(&r, (uint32_t)m);
        if (t == 0 && m >= 2 && k >= 2) { perm[0] = 1; perm[1] = k; lose = 2; }          /* one data fragment and the first parity */
        int miss[40], nm = 0; uint32_t er = 0;
        for (int i = 0; i < lose; i++) er |= 1u << perm[i];
        for (int i = 0; i < n; i++) if (er >> i & 1) miss[nm++] = i;
        if (t & 1) for (int i = 0; i < nm / 2; i++) { int q = miss[i]; miss[i] = miss[nm - 1 - i]; miss[nm - 1 - i] = q; }
        else if (t % 4 == 2 && nm > 2) { int q = miss[0]; miss[0] = miss[1]; miss[1] = q; }
        miss[nm] = -1;
        char b[128]; mask_str(er, n, b, sizeof b);
        for (int rp = 0; rp < 2 && vdec; rp++) {
            for (int i = 0; i < n; i++) { char *bf = i < k ? bd[i] : bp[i - k]; if (er >> i & 1) memset(bf, 0, BS); else memcpy(bf, orig[i], BS); }
            int rc = vdec(g, bd, bp, k, m, miss, BS, rp);
            mon_count("evaluations", 1); mon_count("direct_rs_decoder_calls", 1);
            int wrong = -1;
            for (int i = 0; i < (rp ? n : k); i++) if (memcmp(i < k ? bd[i] : bp[i - k], orig[i], BS)) { wrong = i; break; }
            for (int i = 0; i < n && wrong < 0; i++) if (!(er >> i & 1) && memcmp(i < k ? bd[i] : bp[i - k], orig[i], BS)) wrong = i;
            if (rc != 0 || wrong >= 0) { mon_viol(prop, "direct-decode-wrong", "liberasurecode_rs_vand_decode(rebuild_parity=%d) with %s lost (list starting with %d): rc=%d, fragment %d %s", rp, b, miss[0], rc, wrong, wrong >= 0 ? "differs from the original" : ""); t = tries; break; }
        }
        for (int q = 0; q < nm && vrec && t < tries; q++) {
            int dest = miss[q];
            for (int i = 0; i < n; i++) { char *bf = i < k ? bd[i] : bp[i - k]; if (er >> i & 1) memset(bf, 0, BS); else memcpy(bf, orig[i], BS); }
            int rc = vrec(g, bd, bp, k, m, miss, dest, BS);
            mon_count("evaluations", 1); mon_count("direct_rs_reconstruct_calls", 1);
            if (rc != 0 || memcmp(dest < k ? bd[dest] : bp[dest - k], orig[dest], BS)) { mon_viol(prop, "direct-reconstruct-wrong", "liberasurecode_rs_vand_reconstruct(destination %d) with %s lost (list starting with %d): rc=%d%s", dest, b, miss[0], rc, rc ? "" : ", fragment differs from the original"); t = tries; break; }
        }
    }
    for (int i = 0; i < n; i++) free(i < k ? bd[i] : bp[i - k]);
}

typedef int *(*mksys_fn)(int, int);
typedef void (*freesys_fn)(int *);
typedef void (*initrs_fn)(int, int);
typedef void (*deinitrs_fn)(void);

static void run_canonical(void)
{
    void *h = dlopen("liberasurecode_rs_vand.so.1", RTLD_NOW);
    mksys_fn mk = h ? (mksys_fn)dlsym(h, "make_systematic_matrix") : NULL;
    freesys_fn fr = h ? (freesys_fn)dlsym(h, "free_systematic_matrix") : NULL;
    initrs_fn in = h ? (initrs_fn)dlsym(h, "init_liberasurecode_rs_vand") : NULL;
    deinitrs_fn de = h ? (deinitrs_fn)dlsym(h, "deinit_liberasurecode_rs_vand") : NULL;
    vdec_fn vdec = h ? (vdec_fn)dlsym(h, "liberasurecode_rs_vand_decode") : NULL;
    vrec_fn vrec = h ? (vrec_fn)dlsym(h, "liberasurecode_rs_vand_reconstruct") : NULL;
    if (mon_case_all("rs_vand|plugin-symbols")) {
        if (!mk || !fr || !in || !de) mon_viol("C04", "plugin-symbols-missing", "liberasurecode_rs_vand.so.1 does not export the matrix functions");
        mon_end();
    }
    if (!mk || !fr || !in || !de) return;
    int inited = 0;
    if (mon_case_all("rs_vand|init-tables")) { in(4, 2); inited = 1; mon_end(); }
    if (!inited) return;
    int sub_n = MO.thorough ? 18 : 12;
    for (int k = 1; k <= 31; k++) for (int m = 1; k + m <= 32; m++) {
        if (mon_case("rs_vand|k=%d,m=%d|generator", k, m)) {
            int *g = mk(k, m);
            if (!g) mon_viol("C04", "no-matrix", "make_systematic_matrix returned NULL");
            else {
                int n = k + m, bad = 0;
                for (int r = 0; r < n && !bad; r++) for (int j = 0; j < k; j++) {
                    uint32_t want = r < k ? (uint32_t)(r == j) : rs_coeff(k, r, j);
                    mon_count("evaluations", 1);
                    if ((uint32_t)g[r * k + j] != want) { mon_viol("C04", "generator-entry-differs", "row %d col %d: library %d, closed form L_j(r)/L_j(k) = %u", r, j, g[r * k + j], want); bad = 1; break; }
                }
                mon_count("generators_compared", 1);
                /* asked again for the same shape (and once for another shape in between): the same matrix */
                { int *g2 = mk(k, m), *g3 = mk(k > 1 ? k - 1 : k + 1, m), *g4 = mk(k, m);
                  if (!g2 || !g4 || memcmp(g, g2, sizeof(int) * (size_t)(n * k)) || memcmp(g, g4, sizeof(int) * (size_t)(n * k))) mon_viol("C04", "generator-not-reproducible", "make_systematic_matrix(%d,%d) returned a different matrix when asked again", k, m);
                  if (g2) fr(g2); if (g3) fr(g3); if (g4) fr(g4); mon_count("evaluations", 2); }
                mon_distinct("nontrivial", mon_hash_u64((uint64_t)(k * 100 + m), 9));
                if ((vdec || vrec) && n <= 16 && !bad) direct_rs_plugin_checks("C04", g, k, m, vdec, vrec);
                /* MDS: every k-subset of rows invertible (library's own matrix, monitor's elimination) */
                uint32_t gm[32 * 32]; for (int i = 0; i < n * k; i++) gm[i] = (uint32_t)g[i];
                if (n <= sub_n) {
                    int cb[32]; comb_first(cb, k);
                    do {
                        mon_count("evaluations", 1); mon_count("row_subsets_checked", 1);
                        if (gf16_rank(gm, k, cb, k) != k) { char b[128]; mask_str(mask_of(cb, k), n, b, sizeof b); mon_viol("C04", "singular-row-subset", "rows %s are not independent", b); break; }
                    } while (comb_next(cb, k, n));
                    mon_count("shapes_with_all_row_subsets", 1);
                } else {
                    rng_t r; rng_case(&r);
                    int ns = MO.thorough ? 2000 : 12;
                    for (int s = 0; s < ns; s++) {
                        int perm[32]; for (int i = 0; i < n; i++) perm[i] = i;
                        rng_shuffle(&r, perm, n);
                        if (s == 0) for (int i = 0; i < k; i++) perm[i] = n - 1 - i;
                        mon_count("evaluations", 1); mon_count("row_subsets_checked", 1);
                        if (gf16_rank(gm, k, perm, k) != k) { mon_viol("C04", "singular-row-subset", "a sampled k-subset of rows is singular"); break; }
                    }
                }
                if ((k * 32 + m) % 61 == 0) mon_sample("{\"k\":%d,\"m\":%d,\"first_parity_row\":[%d,...],\"entry[k+m-1][k-1]\":%d,\"closed_form\":%u}", k, m, g[k * k], g[(n - 1) * k + k - 1], rs_coeff(k, n - 1, k - 1));
                fr(g);
            }
            mon_end();
        }
    }
    /* parity bytes through the public API == model parity (ctx_open compares the full stripe with the model) */
    static cfg_t cfgs[600]; int nc = cfgs_rs(cfgs, 600, EC_BACKEND_LIBERASURECODE_RS_VAND, 1, MO.seed);
    for (int ci = 0; ci < nc; ci++) {
        if (!MO.thorough && (ci % 4) != (int)(MO.seed % 4) && cfgs[ci].k + cfgs[ci].m != 32 && cfgs[ci].k != 1 && cfgs[ci].m != 1) continue;
        cfg_t c = cfgs[ci]; c.ct = CHKSUM_NONE;
        uint64_t lens[MAXSTR] = { (uint64_t)c.k * 2 * 9, (uint64_t)c.k * 2 * 40 - 1, 1 + (uint64_t)c.k, 4096 };
        int kinds[MAXSTR] = { DATA_RANDOM, DATA_HIGH, DATA_FF, DATA_RANDOM };
        int nl = 4;
        nl += payload_sweep_lengths(&c, lens + nl, kinds + nl, MAXSTR - nl - 1);
        if (ci % 7 == (int)(MO.seed % 7) || MO.thorough) { lens[nl] = (uint64_t)c.k * (65536 + 2 * (uint64_t)(ci % 9)) - 1; kinds[nl] = DATA_RANDOM; nl++; }   /* > 64 KiB per fragment */
        ctx_t x;
        PROP = "C04";
        if (ctx_open(&x, &c, lens, kinds, nl) == 0) {
            for (int si = 0; si < x.nstr; si++) {
                if (mon_case("%s|len=%llu|parity-vs-model", x.ck, (unsigned long long)x.st[si].len)) {
                    stripe_t *s = &x.st[si];
                    uint64_t P = s->flen - 80;
                    const uint8_t *dp[32]; for (int i = 0; i < c.k; i++) dp[i] = s->frag[i] + 80;
                    uint8_t *o = malloc(P ? P : 1), *xo = calloc(1, P ? P : 1);
                    for (int j = 0; j < c.m; j++) {
                        rs_model_parity(c.k, c.m, dp, P, c.k + j, o);
                        mon_count("evaluations", 1); mon_count("parity_fragments_compared", 1);
                        if (memcmp(o, s->frag[c.k + j] + 80, P)) mon_viol("C04", "parity-differs-from-model", "parity %d differs from the GF(2^16) model", j);
                    }
                    for (int i = 0; i < c.k; i++) for (uint64_t b = 0; b < P; b++) xo[b] ^= dp[i][b];
                    if (memcmp(xo, s->frag[c.k] + 80, P)) mon_viol("C04", "first-parity-not-xor", "first parity is not the XOR of the data fragments");
                    free(o); free(xo);
                    /* "any k of the k+m fragments determine the data", also for a single rebuilt fragment: every parity is rebuilt
                     * from survivors that lack it and the two (or m-1) first / last data fragments, and must be the model parity */
                    if (c.m >= 2 && c.k >= 2) {
                        for (int j = 0; j < c.m; j++) {
                            int lose = c.m - 1 < 2 ? c.m - 1 : (j & 1 ? c.m - 1 : 2); if (lose > c.k) lose = c.k;
                            uint32_t er = 1u << (c.k + j);
                            for (int q = 0; q < lose; q++) er |= 1u << ((j & 2) ? c.k - 1 - q : q);
                            char *lst[64]; int cnt = 0; int n = c.k + c.m;
                            for (int i = n - 1; i >= 0; i--) if (!((er >> i) & 1)) lst[cnt++] = (char *)s->frag[i];
                            uint8_t *of = malloc(s->flen);
                            int rc = liberasurecode_reconstruct_fragment(x.desc, lst, cnt, s->flen, c.k + j, (char *)of);
                            mon_count("evaluations", 1); mon_count("parity_fragments_rebuilt", 1);
                            if (rc != 0) mon_viol("C04", "parity-rebuild-failed", "reconstruct of parity %d with %d data fragments lost returned %d", j, lose, rc);
                            else if (memcmp(of, s->frag[c.k + j], s->flen)) mon_viol("C04", "rebuilt-parity-differs-from-model", "parity %d rebuilt while %d data fragments were lost is not the canonical parity", j, lose);
                            free(of);
                        }
                    }
                    mon_distinct("nontrivial", mon_hash_u64(s->len, mon_hash_str(x.ck, 10)));
                    mon_end();
                }
            }
        }
        ctx_close(&x);
    }
    de();
}

/* ================================================================ C19 fault sequences */
static void run_isal_faults(void)
{
    noise_stop();      /* the inversion failpoint is a process-wide countdown: no second thread may consume it */
    void *h = dlopen("libisal.so.2", RTLD_NOW);
    int *failat = h ? (int *)dlsym(h, "isal_ref_fail_invert_at") : NULL;
    long *calls = h ? (long *)dlsym(h, "isal_ref_invert_calls") : NULL;
    if (!failat || !calls) { mon_logf("HARNESS reference libisal failpoint symbols not found"); return; }
    static const int shapes[][2] = { {4, 2}, {3, 3}, {10, 4}, {2, 1}, {6, 5} };
    for (int be = 0; be < 2; be++) for (size_t sh = 0; sh < sizeof shapes / sizeof shapes[0]; sh++) {
        cfg_t c = { be ? EC_BACKEND_ISA_L_RS_CAUCHY : EC_BACKEND_ISA_L_RS_VAND, shapes[sh][0], shapes[sh][1], shapes[sh][1], 0, CHKSUM_CRC32 };
        uint64_t lens[2] = { (uint64_t)c.k * 37 + 5, 64 }; int kinds[2] = { DATA_RANDOM, DATA_HIGH };
        ctx_t x;
        if (ctx_open(&x, &c, lens, kinds, 2) != 0) { ctx_close(&x); continue; }
        int n = cfg_n(&c);
        uint32_t full = (1u << n) - 1;
        /* scripted workload: sequence of (op, erased set, dest); every inversion position fails once */
        struct { int op; uint32_t erased; int dest; } script[64]; int ns = 0;
        rng_t r; rng_seed(&r, MO.seed, mon_hash_str(x.ck, 21));
        for (int i = 0; i < 10; i++) {
            int perm[32]; for (int q = 0; q < n; q++) perm[q] = q;
            rng_shuffle(&r, perm, n);
            int sz = 1 + (int)rng_below(&r, (uint32_t)c.m);
            uint32_t er = mask_of(perm, sz) | 1u;   /* always lose data 0 so the backend is really called */
            if (__builtin_popcount(er) > c.m) er = 1u;
            script[ns].op = i & 1; script[ns].erased = er; script[ns].dest = (i & 2) ? 0 : perm[0]; if (!((er >> script[ns].dest) & 1)) script[ns].dest = 0; ns++;
        }
        for (int pos = 1; pos <= ns; pos++) {
            if (!mon_case("%s|fail-inversion-at-call=%d", x.ck, pos)) continue;
            *failat = 0;
            long before = *calls;
            for (int st = 0; st < ns; st++) {
                uint32_t present = full & ~script[st].erased;
                int expect_fail = 0;
                if ((*calls - before) + 1 == pos) { *failat = 1; expect_fail = 1; }
                int idx[32]; int cnt = list_of(present, n, idx);
                rng_t rr; rng_seed(&rr, 1, 2);
                pres_t pr; pres_build(&pr, &x.st[st % x.nstr], idx, cnt, AL_ALIGNED, 0, &rr);
                stripe_t *s = &x.st[st % x.nstr];
                int rc; int exact = 0;
                long c0 = *calls;
                if (script[st].op == 0) {
                    char *out = NULL; uint64_t ol = 0;
                    rc = liberasurecode_decode(x.desc, pr.ptr, cnt, s->flen, 0, &out, &ol);
                    if (rc == 0) { exact = ol == s->len && !memcmp(out, s->data, s->len); liberasurecode_decode_cleanup(x.desc, out); }
                } else {
                    uint8_t *o = malloc(s->flen);
                    rc = liberasurecode_reconstruct_fragment(x.desc, pr.ptr, cnt, s->flen, script[st].dest, (char *)o);
                    if (rc == 0) exact = !memcmp(o, s->frag[script[st].dest], s->flen);
                    free(o);
                }
                int inverted = *calls > c0;
                mon_count("evaluations", 1);
                if (expect_fail && inverted) {
                    mon_count("injected_inversion_failures", 1);
                    if (rc >= 0) mon_viol("C19", "inversion-failure-ignored", "gf_invert_matrix failed (injected) but the public call returned %d", rc);
                } else if (!expect_fail || !inverted) {
                    int req = must_succeed(&x, present);
                    if (rc == 0 && !exact) mon_viol("C19", "wrong-bytes-after-fault", "call %d after an injected failure returned 0 with wrong bytes", st);
                    if (rc != 0 && req) mon_viol("C19", "call-after-fault-refused", "step %d (no injected failure) returned %d", st, rc);
                }
                *failat = 0;
                pres_free(&pr);
            }
            mon_distinct("nontrivial", mon_hash_u64((uint64_t)pos, mon_hash_str(x.ck, 22)));
            mon_end();
        }
        ctx_close(&x);
    }
    /* the adapters' own refusals (word size their init rejects) between uses of live instances, after churn of other
     * instances: a refused create leaves every live instance answering as before (encode == model, decode exact) */
    for (int round = 0; round < (MO.thorough ? 12 : 4); round++) {
        if (!mon_case("isa_l|refused-creates-between-uses|round=%d", round)) continue;
        rng_t r; rng_case(&r);
        static const int shp[][2] = { {4, 2}, {5, 3}, {3, 3}, {10, 4}, {2, 1} };
        int d[4] = { -1, -1, -1, -1 }; cfg_t cc[4];
        for (int i = 0; i < 3; i++) { int q = (int)rng_below(&r, 5); cc[i] = (cfg_t){ (i + round) & 1 ? EC_BACKEND_ISA_L_RS_CAUCHY : EC_BACKEND_ISA_L_RS_VAND, shp[q][0], shp[q][1], shp[q][1], 0, CHKSUM_CRC32 }; d[i] = lec_create(&cc[i]); }
        /* churn: two of them go away, one of the same shape as the first comes back */
        for (int i = 0; i < 2; i++) if (d[i] > 0) { liberasurecode_instance_destroy(d[i]); d[i] = -1; }
        cc[3] = cc[0]; d[3] = lec_create(&cc[3]);
        static const int badw[] = { 7, 4, 33, 64, -8, 1 };
        for (int b = 0; b < 6; b++) {
            cfg_t bc = { b & 1 ? EC_BACKEND_ISA_L_RS_CAUCHY : EC_BACKEND_ISA_L_RS_VAND, shp[b % 5][0], shp[b % 5][1], shp[b % 5][1], badw[b], CHKSUM_CRC32 };
            int bd = lec_create(&bc);
            mon_count("evaluations", 1); mon_count("refused_creates_between_uses", 1);
            if (bd > 0) { if (badw[b] != -8) mon_viol("C19", "bad-word-size-accepted", "create with w=%d returned %d", badw[b], bd); liberasurecode_instance_destroy(bd); }
            for (int i = 2; i < 4; i++) if (d[i] > 0) {
                cfg_use(&cc[i]);
                uint64_t len = (uint64_t)cc[i].k * 23 + (uint64_t)b; uint8_t *data = malloc(len); rng_fill(&r, data, len);
                stripe_t st; int rc = stripe_make(&st, d[i], &cc[i], data, len);
                if (rc != 0) mon_viol("C19", "encode-failed", "encode on a live instance after a refused create (w=%d) returned %d", badw[b], rc);
                else {
                    uint8_t *exp[64]; uint64_t ef = model_fragment_len(&cc[i], len); int n = cfg_n(&cc[i]);
                    for (int f = 0; f < n; f++) exp[f] = malloc(ef);
                    model_stripe(&cc[i], data, len, 0, exp);
                    if (ef != st.flen) mon_viol("C19", "encode-fragment-length", "after a refused create: fragment_len %llu, model %llu", (unsigned long long)st.flen, (unsigned long long)ef);
                    else for (int f = 0; f < n; f++) if (memcmp(exp[f], st.frag[f], ef)) { mon_viol("C19", "encode-differs-from-model", "after a refused create (w=%d) fragment %d of a live %s instance differs from the model", badw[b], f, be_name(cc[i].be)); break; }
                    char *lst[32]; int cnt = 0; for (int f = cc[i].m < n ? 1 : 0; f < n; f++) lst[cnt++] = (char *)st.frag[f];
                    char *out = NULL; uint64_t ol = 0; int drc = liberasurecode_decode(d[i], lst, cnt, st.flen, 0, &out, &ol);
                    if (drc != 0 || ol != len || memcmp(out, data, len)) mon_viol("C19", "decode-wrong-bytes", "after a refused create (w=%d): decode rc=%d", badw[b], drc);
                    if (drc == 0) liberasurecode_decode_cleanup(d[i], out);
                    for (int f = 0; f < n; f++) free(exp[f]);
                    stripe_free(&st);
                }
                free(data);
            }
        }
        for (int i = 0; i < 4; i++) if (d[i] > 0 && liberasurecode_instance_destroy(d[i]) != 0) mon_viol("C19", "destroy-failed", "destroy after refused creates failed");
        mon_distinct("nontrivial", mon_hash_u64((uint64_t)round, 777));
        mon_end();
    }
}

/* C03: the same direct plug-in calls for the shapes up to 12 fragments (reconstruct fidelity of the code itself) */
static void run_direct_rs_plugin(void)
{
    void *h = dlopen("liberasurecode_rs_vand.so.1", RTLD_NOW);
    mksys_fn mk = h ? (mksys_fn)dlsym(h, "make_systematic_matrix") : NULL; freesys_fn fr = h ? (freesys_fn)dlsym(h, "free_systematic_matrix") : NULL;
    initrs_fn in = h ? (initrs_fn)dlsym(h, "init_liberasurecode_rs_vand") : NULL; deinitrs_fn de = h ? (deinitrs_fn)dlsym(h, "deinit_liberasurecode_rs_vand") : NULL;
    vdec_fn vdec = h ? (vdec_fn)dlsym(h, "liberasurecode_rs_vand_decode") : NULL; vrec_fn vrec = h ? (vrec_fn)dlsym(h, "liberasurecode_rs_vand_reconstruct") : NULL;
    if (!mk || !fr || !in || !de || !vrec) { if (mon_case_all("rs_vand|plugin-symbols")) { mon_viol(PROP, "plugin-symbols-missing", "liberasurecode_rs_vand.so.1 does not export its entry points"); mon_end(); } return; }
    int inited = 0;
    if (mon_case_all("rs_vand|direct-plugin|init-tables")) { in(4, 2); inited = 1; mon_end(); }
    if (!inited) return;
    for (int k = 1; k <= 11; k++) for (int m = 1; k + m <= 12; m++) {
        if (!mon_case("rs_vand|k=%d,m=%d|direct-plugin-calls", k, m)) continue;
        int *g = mk(k, m);
        if (g) { direct_rs_plugin_checks(PROP, g, k, m, vdec, vrec); fr(g); }
        mon_distinct("nontrivial", mon_hash_u64((uint64_t)(k * 100 + m), 303));
        mon_end();
    }
    if (mon_case_all("rs_vand|direct-plugin|deinit-tables")) { de(); mon_end(); }
    dlclose(h);
}

/* ================================================================ the backend operations themselves (end of C03 / C19-reconstruct)
 * decode and reconstruct called through the instance's operation table - the entry points the front end dispatches to - with
 * the missing list in ascending, descending and "parity first" order: a list names a set. */
extern ec_backend_t liberasurecode_backend_instance_get_by_desc(int desc);
static void run_direct_backend_ops(int which)
{
    static const cfg_t cf[] = { { EC_BACKEND_ISA_L_RS_VAND, 6, 4, 4, 0, CHKSUM_NONE }, { EC_BACKEND_ISA_L_RS_CAUCHY, 6, 4, 4, 0, CHKSUM_NONE }, { EC_BACKEND_ISA_L_RS_VAND, 3, 5, 5, 0, CHKSUM_NONE }, { EC_BACKEND_ISA_L_RS_CAUCHY, 10, 3, 3, 0, CHKSUM_NONE },
                                { EC_BACKEND_LIBERASURECODE_RS_VAND, 6, 4, 4, 0, CHKSUM_NONE }, { EC_BACKEND_JERASURE_RS_VAND, 4, 3, 3, 0, CHKSUM_NONE }, { EC_BACKEND_FLAT_XOR_HD, 10, 5, 4, 0, CHKSUM_NONE }, { EC_BACKEND_LIBERASURECODE_RS_VAND, 3, 5, 5, 0, CHKSUM_NONE } };
    noise_stop();
    for (size_t ci = 0; ci < sizeof cf / sizeof cf[0]; ci++) {
        cfg_t c = cf[ci];
        int isal = c.be == EC_BACKEND_ISA_L_RS_VAND || c.be == EC_BACKEND_ISA_L_RS_CAUCHY;
        if ((which == 2) != isal) continue;
        if (!liberasurecode_backend_available((ec_backend_id_t)c.be)) continue;
        char ck[96]; cfg_key(&c, ck, sizeof ck);
        int d = -1; stripe_t st; uint64_t len = (uint64_t)c.k * 64; uint8_t *data = malloc(len); rng_t r; rng_seed(&r, MO.seed, 8080 + ci); rng_fill(&r, data, len);
        if (mon_case_all("%s|backend-ops|setup", ck)) { d = lec_create(&c); if (d <= 0 || stripe_make(&st, d, &c, data, len) != 0) { mon_viol(PROP, "setup-failed", "create/encode"); if (d > 0) liberasurecode_instance_destroy(d); d = -1; } mon_end(); }
        if (d <= 0) { free(data); continue; }
        ec_backend_t inst = liberasurecode_backend_instance_get_by_desc(d);
        int n = c.k + c.m, k = c.k, tol = cfg_tol(&c); uint64_t P = st.flen - 80;
        code_t cd; code_init(&cd, &c);
        char *bd[32], *bp[32];
        for (int i = 0; i < n; i++) { void *b = NULL; if (posix_memalign(&b, 16, P)) abort(); if (i < k) bd[i] = b; else bp[i - k] = b; }
        int cb[32];
        for (int sz = 2; sz <= tol && sz <= 3 && inst; sz++) {
            comb_first(cb, sz);
            do {
                uint32_t er = mask_of(cb, sz);
                if (!(er & ((1u << k) - 1)) || !(er >> k)) continue;                 /* at least one data and one parity fragment lost */
                if (isal && !code_firstk_invertible(&cd, (n == 32 ? 0xffffffffu : ((1u << n) - 1)) & ~er)) continue;
                char em[128]; mask_str(er, n, em, sizeof em);
                if (!mon_case("%s|backend-ops|E=%s", ck, em)) continue;
                for (int order = 0; order < 3; order++) {
                    int miss[40], nm = 0;
                    for (int i = 0; i < n; i++) if (er >> i & 1) miss[nm++] = i;
                    if (order == 1) for (int i = 0; i < nm / 2; i++) { int q = miss[i]; miss[i] = miss[nm - 1 - i]; miss[nm - 1 - i] = q; }
                    if (order == 2) { int q = miss[0]; miss[0] = miss[nm - 1]; miss[nm - 1] = q; }      /* a parity index first, data behind it */
                    miss[nm] = -1;
                    for (int op = 0; op <= nm; op++) {
                        for (int i = 0; i < n; i++) { char *b = i < k ? bd[i] : bp[i - k]; if (er >> i & 1) memset(b, 0, P); else memcpy(b, st.frag[i] + 80, P); }
                        int dest = op < nm ? miss[op] : -1, rc;
                        if (dest < 0) rc = inst->common.ops->decode(inst->desc.backend_desc, bd, bp, miss, (int)P);
                        else rc = inst->common.ops->reconstruct(inst->desc.backend_desc, bd, bp, miss, dest, (int)P);
                        mon_count("evaluations", 1); mon_count("backend_ops_called_directly", 1);
                        int wrong = -1;
                        if (rc == 0) { if (dest >= 0) { if (memcmp(dest < k ? bd[dest] : bp[dest - k], st.frag[dest] + 80, P)) wrong = dest; }
                                       else for (int i = 0; i < k; i++) if (memcmp(bd[i], st.frag[i] + 80, P)) { wrong = i; break; } }
                        if (rc != 0 || wrong >= 0) { mon_viol(PROP, "backend-op-wrong", "%s op of %s with %s lost, list order %s: rc=%d%s", dest < 0 ? "decode" : "reconstruct", be_name(c.be), em, order == 0 ? "ascending" : order == 1 ? "descending" : "parity first", rc, wrong >= 0 ? ", wrong bytes" : ""); order = 3; break; }
                    }
                }
                mon_distinct("nontrivial", mon_hash_u64(er, mon_hash_str(ck, 8081)));
                mon_end();
            } while (comb_next(cb, sz, n));
        }
        for (int i = 0; i < n; i++) free(i < k ? bd[i] : bp[i - k]);
        if (mon_case_all("%s|backend-ops|teardown", ck)) { stripe_free(&st); liberasurecode_instance_destroy(d); mon_end(); }
        free(data);
    }
}

/* ================================================================ long runs of calls on one thread and instance
 * (C01 / C03 / C04 each end with it).  Whatever the library keeps between calls - counters, generation stamps, caches - gets
 * more than 2^16 consecutive decode and reconstruct calls of a few fixed erasure patterns; fragment 1 is listed as lost in
 * the very first call only and fragment 3 only in the second, so a stamp that comes round after 2^8 or 2^16 calls meets a
 * call in which that fragment is supplied.  Every call is judged byte for byte. */
static void run_long_sequence(void)
{
    static const cfg_t cf[] = { { EC_BACKEND_LIBERASURECODE_RS_VAND, 4, 2, 2, 0, CHKSUM_CRC32 }, { EC_BACKEND_FLAT_XOR_HD, 10, 5, 3, 0, CHKSUM_NONE }, { EC_BACKEND_LIBERASURECODE_RS_VAND, 10, 4, 4, 0, CHKSUM_NONE },
                                { EC_BACKEND_ISA_L_RS_VAND, 4, 2, 2, 0, CHKSUM_CRC32 }, { EC_BACKEND_JERASURE_RS_VAND, 4, 2, 2, 0, CHKSUM_NONE }, { EC_BACKEND_FLAT_XOR_HD, 6, 6, 4, 0, CHKSUM_CRC32 } };
    noise_stop();
    for (size_t ci = 0; ci < sizeof cf / sizeof cf[0]; ci++) {
        cfg_t c = cf[ci];
        if ((int)(ci % (size_t)(MO.nshards > 0 ? MO.nshards : 1)) != MO.shard) continue;
        if (!liberasurecode_backend_available((ec_backend_id_t)c.be)) continue;
        char ck[96]; cfg_key(&c, ck, sizeof ck);
        if (!mon_case_all("%s|long-sequence-of-calls", ck)) continue;
        int d = lec_create(&c); int n = c.k + c.m;
        uint64_t len = (uint64_t)c.k * 8 + 3; uint8_t *data = malloc(len); rng_t r; rng_seed(&r, MO.seed, 5150 + ci); rng_fill(&r, data, len);
        stripe_t st;
        if (d <= 0 || stripe_make(&st, d, &c, data, len) != 0) { mon_viol(PROP, "setup-failed", "long sequence: create/encode failed"); if (d > 0) liberasurecode_instance_destroy(d); free(data); mon_end(); continue; }
        long N = MO.thorough ? 200000 : 70000, bad = 0;
        uint8_t *o = malloc(st.flen);
        for (long i = 0; i < N && bad < 3; i++) {
            uint32_t er;
            if (i == 0) er = 1u << 1; else if (i == 1) er = 1u << 3 | 1u;
            else { static const int pat[4][2] = { { 0, -1 }, { 0, 1000 }, { 2, -1 }, { 1000, 2 } }; const int *q = pat[i % 4]; er = 0; for (int j = 0; j < 2; j++) if (q[j] >= 0) er |= 1u << (q[j] == 1000 ? n - 1 : q[j]); }
            char *lst[32]; int cnt = 0; for (int f = 0; f < n; f++) if (!(er >> f & 1)) lst[cnt++] = (char *)st.frag[f];
            if (i & 1) {
                char *out = NULL; uint64_t ol = 0; int rc = liberasurecode_decode(d, lst, cnt, st.flen, 0, &out, &ol);
                if (rc != 0 || ol != len || memcmp(out, data, len)) { mon_viol(PROP, "long-sequence-decode-wrong", "call #%ld on one instance (erased 0x%x): decode rc=%d%s", i, er, rc, rc ? "" : ", wrong bytes"); bad++; }
                if (rc == 0) liberasurecode_decode_cleanup(d, out);
            } else {
                int dest = __builtin_ctz(er);
                int rc = liberasurecode_reconstruct_fragment(d, lst, cnt, st.flen, dest, (char *)o);
                if (rc != 0 || memcmp(o, st.frag[dest], st.flen)) { mon_viol(PROP, "long-sequence-reconstruct-wrong", "call #%ld on one instance (erased 0x%x): reconstruct(%d) rc=%d%s", i, er, dest, rc, rc ? "" : ", wrong fragment"); bad++; }
            }
        }
        mon_count("evaluations", N); mon_count("long_sequence_calls", N);
        mon_distinct("nontrivial", mon_hash_str(ck, 5150));
        free(o); stripe_free(&st); free(data); liberasurecode_instance_destroy(d);
        mon_end();
    }
}

/* ================================================================ instance churn (end of C01 / C02 / C03)
 * (a) instances of different shapes whose internal tables have the same byte size, created right after one another's
 *     destruction while a third instance keeps the backend library loaded: on the plain build the allocator hands the new
 *     instance the block the old one just freed, so anything keyed by an address meets another owner;
 * (b) the backend library unloaded (last instance gone) and loaded again while an instance of ANOTHER backend was created or
 *     destroyed in between, so that the library may come back at another address.
 * Every instance encodes its own object and decodes / reconstructs it with the same two erasure lists. */
static int churn_use(const cfg_t *c, int d, uint64_t seed, const char *what) { return lec_use_instance(c, d, seed, what); }

#include <link.h>
#include <sys/mman.h>
typedef struct { const char *name; uintptr_t lo, hi; } libspan_t;
static int libspan_cb(struct dl_phdr_info *info, size_t size, void *data)
{
    (void)size; libspan_t *l = data;
    if (!info->dlpi_name || !strstr(info->dlpi_name, l->name)) return 0;
    for (int i = 0; i < info->dlpi_phnum; i++) if (info->dlpi_phdr[i].p_type == PT_LOAD) {
        uintptr_t a = info->dlpi_addr + info->dlpi_phdr[i].p_vaddr, b = a + info->dlpi_phdr[i].p_memsz;
        if (!l->lo || a < l->lo) l->lo = a;
        if (b > l->hi) l->hi = b;
    }
    return 0;
}
/* the backend's shared object comes back somewhere else: once its last instance is gone (object unmapped), the address range it
 * occupied is taken by an inaccessible mapping before the next instance is created */
static void churn_relocated_library(int be, const char *soname, const cfg_t *c)
{
    if (!liberasurecode_backend_available((ec_backend_id_t)be)) return;
    if (!mon_case_all("%s|library-comes-back-at-another-address", be_name(be))) return;
    int d = lec_create(c);
    if (d <= 0) { mon_viol(PROP, "churn-create-failed", "rc=%d", d); mon_end(); return; }
    churn_use(c, d, 11, "instance before the library is unloaded");
    libspan_t sp = { soname, 0, 0 }; dl_iterate_phdr(libspan_cb, &sp);
    liberasurecode_instance_destroy(d);
    libspan_t after = { soname, 0, 0 }; dl_iterate_phdr(libspan_cb, &after);
    void *blk = MAP_FAILED;
    if (sp.lo && !after.lo) {
        uintptr_t lo = sp.lo & ~(uintptr_t)4095, hi = (sp.hi + 4095) & ~(uintptr_t)4095;
        blk = mmap((void *)lo, hi - lo, PROT_NONE, MAP_PRIVATE | MAP_ANONYMOUS | MAP_NORESERVE | MAP_FIXED_NOREPLACE, -1, 0);
        if (blk != MAP_FAILED && (uintptr_t)blk != lo) { munmap(blk, hi - lo); blk = MAP_FAILED; }
        mon_count(blk != MAP_FAILED ? "libraries_forced_to_another_address" : "library_range_could_not_be_occupied", 1);
        d = lec_create(c);
        if (d <= 0) mon_viol(PROP, "churn-create-failed", "create of %s after its library was unloaded and its address range occupied: rc=%d", be_name(be), d);
        else {
            libspan_t now = { soname, 0, 0 }; dl_iterate_phdr(libspan_cb, &now);
            if (now.lo && now.lo != sp.lo) mon_count("libraries_seen_at_another_address", 1);
            churn_use(c, d, 12, "instance created after the backend library came back at another address");
            liberasurecode_instance_destroy(d);
        }
        if (blk != MAP_FAILED) munmap(blk, hi - lo);
    } else mon_count("library_not_unloaded_with_its_last_instance", 1);
    mon_distinct("nontrivial", mon_hash_u64((uint64_t)be, 618));
    mon_end();
}

static void run_instance_churn(void)
{
    noise_stop();
    if (MO.shard != 0) return;
    static const int pairs[][4] = { {4, 2, 3, 5}, {6, 2, 4, 8}, {2, 2, 1, 7}, {6, 4, 5, 7}, {9, 3, 4, 23}, {5, 2, 4, 5}, {3, 5, 4, 2} };
    static const int bes[] = { EC_BACKEND_LIBERASURECODE_RS_VAND, EC_BACKEND_ISA_L_RS_VAND, EC_BACKEND_ISA_L_RS_CAUCHY, EC_BACKEND_JERASURE_RS_VAND };
    for (size_t bi = 0; bi < sizeof bes / sizeof bes[0]; bi++) {
        if (!liberasurecode_backend_available((ec_backend_id_t)bes[bi])) continue;
        if (!mon_case_all("%s|same-size-shapes-in-turn", be_name(bes[bi]))) continue;
        cfg_t kc = { bes[bi], 10, 4, 4, 0, CHKSUM_NONE }; int keeper = lec_create(&kc);
        for (int round = 0; round < (MO.thorough ? 40 : 8); round++) for (size_t pi = 0; pi < sizeof pairs / sizeof pairs[0]; pi++) for (int half = 0; half < 2; half++) {
            cfg_t c = { bes[bi], pairs[pi][half * 2], pairs[pi][half * 2 + 1], pairs[pi][half * 2 + 1], 0, (round & 1) ? CHKSUM_CRC32 : CHKSUM_NONE };
            int d = lec_create(&c); char what[128]; snprintf(what, sizeof what, "%s (%d,%d) created right after a same-size shape was destroyed, round %d", be_name(c.be), c.k, c.m, round);
            if (d <= 0) { mon_viol(PROP, "churn-create-failed", "%s: rc=%d", what, d); continue; }
            churn_use(&c, d, (uint64_t)pi * 7 + (uint64_t)half, what);
            if (liberasurecode_instance_destroy(d) != 0) mon_viol(PROP, "churn-destroy-failed", "%s", what);
        }
        if (keeper > 0) { churn_use(&kc, keeper, 99, "the instance that stayed alive throughout"); liberasurecode_instance_destroy(keeper); }
        mon_distinct("nontrivial", mon_hash_u64((uint64_t)bes[bi], 616));
        mon_end();
    }
    { cfg_t c1 = { EC_BACKEND_LIBERASURECODE_RS_VAND, 4, 2, 2, 0, CHKSUM_CRC32 }; churn_relocated_library(c1.be, "liberasurecode_rs_vand.so", &c1);
      cfg_t c2 = { EC_BACKEND_FLAT_XOR_HD, 10, 5, 3, 0, CHKSUM_CRC32 }; churn_relocated_library(c2.be, "libXorcode.so", &c2);
      cfg_t c3 = { EC_BACKEND_ISA_L_RS_VAND, 4, 2, 2, 0, CHKSUM_CRC32 }; churn_relocated_library(c3.be, "libisal.so", &c3);
      cfg_t c4 = { EC_BACKEND_SHSS, 4, 2, 2, 0, CHKSUM_CRC32 }; churn_relocated_library(c4.be, "libshss.so", &c4);
      cfg_t c5 = { EC_BACKEND_LIBPHAZR, 4, 2, 1, 0, CHKSUM_CRC32 }; churn_relocated_library(c5.be, "libphazr.so", &c5);
      cfg_t c6 = { EC_BACKEND_NULL, 4, 2, 2, 0, CHKSUM_NONE }; churn_relocated_library(c6.be, "libnullcode.so", &c6); }
    /* (b) library unloaded and loaded again around the life of an instance of another backend */
    static const int b2[] = { EC_BACKEND_LIBERASURECODE_RS_VAND, EC_BACKEND_FLAT_XOR_HD, EC_BACKEND_ISA_L_RS_VAND, EC_BACKEND_JERASURE_RS_VAND, EC_BACKEND_SHSS };
    static const int others[] = { EC_BACKEND_NULL, EC_BACKEND_FLAT_XOR_HD, EC_BACKEND_LIBERASURECODE_RS_VAND };
    for (size_t bi = 0; bi < sizeof b2 / sizeof b2[0]; bi++) for (size_t oi = 0; oi < 3; oi++) for (int order = 0; order < 2; order++) {
        if (!liberasurecode_backend_available((ec_backend_id_t)b2[bi]) || b2[bi] == others[oi]) continue;
        if (!mon_case_all("%s|library-reloaded-around-%s|order=%d", be_name(b2[bi]), be_name(others[oi]), order)) continue;
        cfg_t c = { b2[bi], b2[bi] == EC_BACKEND_FLAT_XOR_HD ? 10 : 4, b2[bi] == EC_BACKEND_FLAT_XOR_HD ? 5 : 2, b2[bi] == EC_BACKEND_FLAT_XOR_HD ? 3 : 2, 0, CHKSUM_CRC32 };
        cfg_t oc = { others[oi], others[oi] == EC_BACKEND_FLAT_XOR_HD ? 5 : 4, others[oi] == EC_BACKEND_FLAT_XOR_HD ? 5 : 2, others[oi] == EC_BACKEND_FLAT_XOR_HD ? 3 : 2, 0, CHKSUM_NONE };
        int o1 = order == 0 ? lec_create(&oc) : -1;              /* order 0: the other backend is loaded first and unloaded in between */
        int d = lec_create(&c); if (d > 0) { churn_use(&c, d, 1, "first instance of the backend"); liberasurecode_instance_destroy(d); }
        if (order == 0) { if (o1 > 0) liberasurecode_instance_destroy(o1); o1 = -1; } else o1 = lec_create(&oc);
        d = lec_create(&c);
        if (d <= 0) mon_viol(PROP, "churn-create-failed", "second instance of %s after its library was unloaded: rc=%d", be_name(c.be), d);
        else { churn_use(&c, d, 2, "instance created after the backend library was unloaded and loaded again"); liberasurecode_instance_destroy(d); }
        if (o1 > 0) liberasurecode_instance_destroy(o1);
        mon_distinct("nontrivial", mon_hash_u64((uint64_t)(bi * 8 + oi * 2) + (uint64_t)order, 617));
        mon_end();
    }
}

/* C04 (and C01): instances created at the same moment by several threads while NO instance of the backend exists - the first
 * arrival builds whatever the backend shares (arithmetic tables), the others must not compute their generator from a table
 * that is still being filled.  Each thread then encodes through its instance; the stripe is compared with the model and
 * decoded through ANOTHER thread's instance with data lost.  The oracle is the closed-form model, not a race detector. */
typedef struct { pthread_barrier_t *bar; cfg_t c; int desc; int round; int id; } cfc_t;
static void *cfc_main(void *v)
{
    cfc_t *a = v;
    pthread_barrier_wait(a->bar);
    a->desc = lec_create(&a->c);
    return NULL;
}
static void run_concurrent_first_creates(void)
{
    noise_stop();
    static const cfg_t shapes[] = { { EC_BACKEND_LIBERASURECODE_RS_VAND, 10, 4, 4, 0, CHKSUM_NONE }, { EC_BACKEND_LIBERASURECODE_RS_VAND, 4, 2, 2, 0, CHKSUM_CRC32 }, { EC_BACKEND_ISA_L_RS_VAND, 6, 3, 3, 0, CHKSUM_NONE }, { EC_BACKEND_JERASURE_RS_VAND, 4, 2, 2, 0, CHKSUM_NONE }, { EC_BACKEND_FLAT_XOR_HD, 10, 5, 3, 0, CHKSUM_NONE } };
    int rounds = MO.thorough ? 400 : 48;
    for (size_t si = 0; si < sizeof shapes / sizeof shapes[0]; si++) {
        if (!liberasurecode_backend_available((ec_backend_id_t)shapes[si].be)) continue;
        for (int round = 0; round < rounds; round++) {
            if (!mon_case("%s|first-instances-created-concurrently|round=%d", be_name(shapes[si].be), round)) continue;
            enum { NT = 3 }; pthread_barrier_t bar; pthread_barrier_init(&bar, NULL, NT);
            cfc_t a[NT]; pthread_t th[NT];
            for (int t = 0; t < NT; t++) { a[t] = (cfc_t){ &bar, shapes[si], -1, round, t }; if (t == 2 && shapes[si].k > 4) { a[t].c.k -= 1; a[t].c.m += 1; a[t].c.hd = a[t].c.be == EC_BACKEND_FLAT_XOR_HD ? a[t].c.hd : a[t].c.m; if (a[t].c.be == EC_BACKEND_FLAT_XOR_HD) a[t].c = shapes[si]; } pthread_create(&th[t], NULL, cfc_main, &a[t]); }
            for (int t = 0; t < NT; t++) pthread_join(th[t], NULL);
            pthread_barrier_destroy(&bar);
            char what[160];
            for (int t = 0; t < NT; t++) {
                if (a[t].desc <= 0) { mon_viol(PROP, "concurrent-create-failed", "round %d thread %d: create rc=%d", round, t, a[t].desc); continue; }
                snprintf(what, sizeof what, "instance created by thread %d of %d concurrent first creates of %s, round %d", t, NT, be_name(shapes[si].be), round);
                lec_use_instance(&a[t].c, a[t].desc, (uint64_t)(round * 4 + t), what);
            }
            /* a stripe written through one instance is read through the twin created by the other thread */
            if (a[0].desc > 0 && a[1].desc > 0) {
                const cfg_t *c = &a[0].c; int n = c->k + c->m; uint64_t len = (uint64_t)c->k * 40 + 7; uint8_t *data = malloc(len); rng_t r; rng_seed(&r, MO.seed, 991 + (uint64_t)round); rng_fill(&r, data, len);
                stripe_t st; cfg_use(c);
                if (stripe_make(&st, a[0].desc, c, data, len) == 0) {
                    char *lst[32]; int cnt = 0; int tol = cfg_tol(c); for (int f = 0; f < n; f++) if (f >= (tol < c->k ? tol : c->k - 1) || tol == 0) lst[cnt++] = (char *)st.frag[f];
                    char *out = NULL; uint64_t ol = 0; int rc = liberasurecode_decode(a[1].desc, lst, cnt, st.flen, 0, &out, &ol);
                    if (rc != 0 || ol != len || memcmp(out, data, len)) mon_viol(PROP, "concurrent-create-cross-decode", "round %d: a stripe written through thread 0's instance, read through thread 1's with the first data fragments lost: rc=%d%s", round, rc, rc ? "" : ", wrong bytes");
                    if (rc == 0) liberasurecode_decode_cleanup(a[1].desc, out);
                    stripe_free(&st);
                }
                free(data);
            }
            for (int t = 0; t < NT; t++) if (a[t].desc > 0) liberasurecode_instance_destroy(a[t].desc);
            mon_count("concurrent_first_create_rounds", 1); mon_count("evaluations", NT);
            mon_distinct("nontrivial", mon_hash_u64((uint64_t)round, mon_hash_str(be_name(shapes[si].be), 4040)));
            mon_end();
        }
    }
}

/* ================================================================ populations (C01 / C04 / C19): every history of creates
 * (twins included) and destroys (oldest, newest, middle) up to a length over a small pool of shapes, then longer random
 * ones; every live instance is used after every step (lec_population) */
static void run_population(int which)
{
    noise_stop();
    int el = MO.thorough ? 6 : 5, walks = MO.thorough ? 400 : 32, wl = MO.thorough ? 48 : 28;
    if (which == 1) {
        static const cfg_t p1[] = { { EC_BACKEND_LIBERASURECODE_RS_VAND, 4, 2, 2, 0, CHKSUM_NONE }, { EC_BACKEND_LIBERASURECODE_RS_VAND, 3, 5, 5, 0, CHKSUM_CRC32 }, { EC_BACKEND_FLAT_XOR_HD, 10, 5, 3, 0, CHKSUM_NONE } };
        lec_population(p1, 3, "rs+xor", el, walks, wl);
        static const cfg_t p2[] = { { EC_BACKEND_JERASURE_RS_VAND, 4, 2, 2, 0, CHKSUM_NONE }, { EC_BACKEND_JERASURE_RS_CAUCHY, 3, 2, 2, 0, CHKSUM_NONE }, { EC_BACKEND_LIBPHAZR, 4, 2, 1, 0, CHKSUM_CRC32 }, { EC_BACKEND_SHSS, 4, 2, 2, 0, CHKSUM_CRC32 } };
        lec_population(p2, 4, "adapters", el - 1, walks / 2, wl);
    } else if (which == 4) {
        /* a shape without parity takes part: it shares the arithmetic tables but never multiplies */
        static const cfg_t p[] = { { EC_BACKEND_LIBERASURECODE_RS_VAND, 4, 2, 2, 0, CHKSUM_NONE }, { EC_BACKEND_LIBERASURECODE_RS_VAND, 6, 0, 0, 0, CHKSUM_NONE }, { EC_BACKEND_LIBERASURECODE_RS_VAND, 5, 3, 3, 0, CHKSUM_CRC32 } };
        lec_population(p, 3, "rs-with-m0", el, walks, wl);
    } else {
        static const cfg_t p[] = { { EC_BACKEND_ISA_L_RS_VAND, 4, 2, 2, 0, CHKSUM_NONE }, { EC_BACKEND_ISA_L_RS_VAND, 6, 3, 3, 0, CHKSUM_CRC32 }, { EC_BACKEND_ISA_L_RS_CAUCHY, 6, 3, 3, 0, CHKSUM_NONE } };
        lec_population(p, 3, "isa-l", el, walks, wl);
    }
}

/* ================================================================ main */
int main(int argc, char **argv)
{
    mon_init(argc, argv);
    LEC_PROP = MO.prop;
    char err[256];
    if (xor_golden_selfcheck(err, sizeof err)) { mon_logf("HARNESS golden XOR tables failed their self-check: %s", err); mon_finish(); return 2; }
    int need_isal = !strcmp(PROP, "C19");
    if (need_isal && !isal_available()) { mon_logf("HARNESS reference libisal.so.2 not loadable"); mon_finish(); return 2; }
    lec_env_legacy(0);
    if (MO.noise) noise_start();
    if (!strcmp(PROP, "C01")) { run_roundtrip(isal_available() ? 3 : 1); run_long_sequence(); run_instance_churn(); run_population(1); run_concurrent_first_creates(); }
    else if (!strcmp(PROP, "C02")) { run_nosilent(1); run_instance_churn(); }
    else if (!strcmp(PROP, "C03")) { run_reconstruct(1); run_direct_rs_plugin(); run_direct_backend_ops(1); run_long_sequence(); run_instance_churn(); }
    else if (!strcmp(PROP, "C04")) { run_canonical(); run_long_sequence(); run_population(4); run_concurrent_first_creates(); }
    else if (!strcmp(PROP, "C05")) run_xor();
    else if (!strcmp(PROP, "C06")) run_needed(1);
    else if (!strcmp(PROP, "C20")) run_force(isal_available() ? 3 : 1);
    else if (!strcmp(PROP, "C19")) {
        if (!strcmp(MO.mode, "roundtrip")) { run_roundtrip(2); run_population(19); }
        else if (!strcmp(MO.mode, "nosilent")) run_nosilent(2);
        else if (!strcmp(MO.mode, "reconstruct")) { run_reconstruct(2); run_direct_backend_ops(2); }
        else if (!strcmp(MO.mode, "needed")) run_needed(2);
        else if (!strcmp(MO.mode, "faults")) run_isal_faults();
        else { run_roundtrip(2); run_nosilent(2); run_reconstruct(2); run_needed(2); run_isal_faults(); run_population(19); }
    } else { mon_logf("HARNESS unknown property %s", PROP); mon_finish(); return 2; }
    noise_stop();
    mon_finish();
    return 0;
}
