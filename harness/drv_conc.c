/* C18: concurrency.  Stress workloads for ThreadSanitizer (shared descriptor;
 * per-thread create/use/destroy incl. first-ever RS creates; both together) and
 * directed interleavings through the guarded yield hooks, with sequential
 * oracles on every thread's results and a descriptor-uniqueness monitor.
 * Monitor state shared between threads uses relaxed atomics only, so it adds no
 * happens-before edge that could hide a race from TSan. */
#include "lec.h"
#include "erasurecode_backend.h"
#include "erasurecode_verif.h"
#include <stdio.h>
#include <stdlib.h>
#include <string.h>
#include <pthread.h>
#include <sched.h>
#include <stdatomic.h>

#define PROP "C18"
#define MAXT 16
static int isal_ok;

/* ---------------- expected stripes (sequential oracle), built before threads start ---------------- */
/* every configuration comes in NVAR variants with different content (and for some also different length), so that two
 * threads working through one shared descriptor do not compute identical bytes: state that leaks from one call into
 * another then shows as a wrong result, not only as a race report */
#define NVAR 4
typedef struct { cfg_t c; uint64_t len; uint8_t *data; uint64_t flen; uint8_t **frag; char ck[96]; code_t cd;
                 uint32_t pq[8]; int npq;            /* flat-XOR hd=4: data triples no parity isolates (the P xor Q branch) */
                 int nvar; uint64_t vlen[NVAR]; uint8_t *vdata[NVAR]; uint64_t vflen[NVAR]; uint8_t **vfrag[NVAR]; } exp_t;
static exp_t EX[16]; static int nex;

static void build_expectations(void)
{
    static const cfg_t cf[] = {
        { EC_BACKEND_LIBERASURECODE_RS_VAND, 4, 2, 2, 0, CHKSUM_CRC32 }, { EC_BACKEND_LIBERASURECODE_RS_VAND, 10, 4, 4, 0, CHKSUM_NONE },
        { EC_BACKEND_FLAT_XOR_HD, 10, 5, 3, 0, CHKSUM_CRC32 }, { EC_BACKEND_FLAT_XOR_HD, 6, 6, 4, 0, CHKSUM_NONE },
        { EC_BACKEND_LIBERASURECODE_RS_VAND, 3, 3, 3, 0, CHKSUM_CRC32 }, { EC_BACKEND_NULL, 4, 2, 2, 0, CHKSUM_NONE },
        { EC_BACKEND_ISA_L_RS_VAND, 4, 2, 2, 0, CHKSUM_CRC32 }, { EC_BACKEND_ISA_L_RS_CAUCHY, 5, 3, 3, 0, CHKSUM_CRC32 },
        { EC_BACKEND_FLAT_XOR_HD, 10, 5, 4, 0, CHKSUM_CRC32 }, { EC_BACKEND_SHSS, 4, 2, 2, 0, CHKSUM_CRC32 },
        { EC_BACKEND_JERASURE_RS_VAND, 4, 2, 2, 0, CHKSUM_CRC32 }, { EC_BACKEND_JERASURE_RS_CAUCHY, 3, 2, 2, 0, CHKSUM_CRC32 },
        { EC_BACKEND_LIBPHAZR, 4, 2, 1, 0, CHKSUM_CRC32 },
    };
    rng_t r; rng_seed(&r, MO.seed, 0x18000);
    for (size_t i = 0; i < sizeof cf / sizeof cf[0]; i++) {
        if (!isal_ok && (cf[i].be == EC_BACKEND_ISA_L_RS_VAND || cf[i].be == EC_BACKEND_ISA_L_RS_CAUCHY)) continue;
        if (cf[i].be == EC_BACKEND_SHSS && !liberasurecode_backend_available(EC_BACKEND_SHSS)) continue;
        if ((cf[i].be == EC_BACKEND_JERASURE_RS_VAND || cf[i].be == EC_BACKEND_JERASURE_RS_CAUCHY || cf[i].be == EC_BACKEND_LIBPHAZR) && !liberasurecode_backend_available((ec_backend_id_t)cf[i].be)) continue;
        exp_t *e = &EX[nex++];
        e->c = cf[i]; cfg_key(&e->c, e->ck, sizeof e->ck); code_init(&e->cd, &e->c);
        e->len = 100 + rng_below(&r, 900);
        e->data = malloc(e->len); rng_fill(&r, e->data, e->len);
        e->flen = model_fragment_len(&e->c, e->len);
        int n = e->c.k + e->c.m;
        e->frag = calloc((size_t)n, sizeof(uint8_t *));
        for (int f = 0; f < n; f++) e->frag[f] = malloc(e->flen);
        model_stripe(&e->c, e->data, e->len, 0, e->frag);
        /* variants: 0 = the stripe above; 1..: other content, every other one also another length */
        e->nvar = NVAR;
        for (int v = 0; v < NVAR; v++) {
            if (v == 0) { e->vlen[0] = e->len; e->vdata[0] = e->data; e->vflen[0] = e->flen; e->vfrag[0] = e->frag; continue; }
            e->vlen[v] = (v & 1) ? e->len : 2000 + rng_below(&r, 3000);
            e->vdata[v] = malloc(e->vlen[v]); rng_fill(&r, e->vdata[v], e->vlen[v]);
            e->vflen[v] = model_fragment_len(&e->c, e->vlen[v]);
            e->vfrag[v] = calloc((size_t)n, sizeof(uint8_t *));
            for (int f = 0; f < n; f++) e->vfrag[v][f] = malloc(e->vflen[v]);
            model_stripe(&e->c, e->vdata[v], e->vlen[v], 0, e->vfrag[v]);
        }
        if (e->c.be == EC_BACKEND_FLAT_XOR_HD && e->c.hd == 4 && e->cd.xt) {
            int k = e->c.k, m = e->c.m;
            for (int a = 0; a < k && e->npq < 8; a++) for (int b2 = a + 1; b2 < k && e->npq < 8; b2++) for (int c2 = b2 + 1; c2 < k && e->npq < 8; c2++) {
                uint32_t t3 = 1u << a | 1u << b2 | 1u << c2; int isolating = 0;
                for (int p = 0; p < m; p++) if (__builtin_popcount(e->cd.xt->parity_bms[p] & t3) == 1) isolating = 1;
                if (!isolating) e->pq[e->npq++] = t3;
            }
        }
    }
}

/* ---------------- descriptor uniqueness monitor ---------------- */
#define LIVESZ 4096
static _Atomic int live_tab[LIVESZ];       /* open addressing on descriptor value */
static _Atomic long dup_desc;
static void live_add(int d)
{
    for (unsigned i = 0, h = (unsigned)d * 2654435761u; i < LIVESZ; i++) {
        unsigned j = (h + i) % LIVESZ;
        int cur = atomic_load_explicit(&live_tab[j], memory_order_relaxed);
        if (cur == d) { atomic_fetch_add_explicit(&dup_desc, 1, memory_order_relaxed); return; }
        if (cur == 0) { int z = 0; if (atomic_compare_exchange_strong_explicit(&live_tab[j], &z, d, memory_order_relaxed, memory_order_relaxed)) return; if (z == d) { atomic_fetch_add_explicit(&dup_desc, 1, memory_order_relaxed); return; } }
    }
}
static void live_del(int d)
{
    for (unsigned i = 0, h = (unsigned)d * 2654435761u; i < LIVESZ; i++) {
        unsigned j = (h + i) % LIVESZ;
        int cur = atomic_load_explicit(&live_tab[j], memory_order_relaxed);
        if (cur == d) { atomic_store_explicit(&live_tab[j], -1, memory_order_relaxed); return; }   /* tombstone */
        if (cur == 0) return;
    }
}
static void live_reset(void) { for (int i = 0; i < LIVESZ; i++) atomic_store_explicit(&live_tab[i], 0, memory_order_relaxed); }

/* ---------------- per-thread result record (aggregated after join) ---------------- */
typedef struct {
    int tid; int mode; int iters; int shared_desc; int shared_ex; uint64_t seed;
    long ops, creates, bad_create, bad_encode, bad_decode, bad_recon, bad_destroy, bad_query;
    char first_bad[200];
} tres_t;

static void note_bad(tres_t *t, const char *what) { if (!t->first_bad[0]) snprintf(t->first_bad, sizeof t->first_bad, "%s", what); }

static void use_instance(tres_t *t, int desc, const exp_t *e0, rng_t *r, int heavy)
{
    /* this thread's own variant of the stripe (content, for some also length) */
    exp_t ev = *e0; { int v = t->tid % e0->nvar; ev.len = e0->vlen[v]; ev.data = e0->vdata[v]; ev.flen = e0->vflen[v]; ev.frag = e0->vfrag[v]; }
    const exp_t *e = &ev;
    int n = e->c.k + e->c.m, k = e->c.k;
    /* encode == reference stripe */
    char **ed = NULL, **ep = NULL; uint64_t fl = 0;
    int rc = liberasurecode_encode(desc, (char *)e->data, e->len, &ed, &ep, &fl);
    t->ops++;
    if (rc != 0 || fl != e->flen) { t->bad_encode++; note_bad(t, "encode failed or wrong fragment length"); if (rc == 0) liberasurecode_encode_cleanup(desc, ed, ep); return; }
    if (e->c.be != EC_BACKEND_NULL)
        for (int f = 0; f < n; f++) if (memcmp(f < k ? ed[f] : ep[f - k], e->frag[f], fl)) { t->bad_encode++; note_bad(t, "encode output differs from the sequential reference"); break; }
    /* decode with erasures (data loss, so shared tables are used) */
    int tol = cfg_tol(&e->c);
    if (e->c.be != EC_BACKEND_NULL && tol >= 1) {
        int perm[32]; for (int i = 0; i < n; i++) perm[i] = i;
        rng_shuffle(r, perm, n);
        int sz = 1 + (int)rng_below(r, (uint32_t)tol);
        perm[0] = (int)rng_below(r, (uint32_t)k);
        uint32_t erased = mask_of(perm, sz);
        if (e->npq && rng_below(r, 3) == 0) erased = e->pq[rng_below(r, (uint32_t)e->npq)];      /* the rarely taken P xor Q branch */
        uint32_t present = ((n == 32) ? 0xffffffffu : (1u << n) - 1) & ~erased;
        int req = e->c.be != EC_BACKEND_ISA_L_RS_VAND || code_firstk_invertible(&e->cd, present);
        char *lst[64]; int cnt = 0;
        /* every other call reads the survivors from the variant's reference fragments, which other threads are reading at the
         * same time (inputs are read-only to the library, so sharing them between threads is legitimate) */
        int shared_inputs = (int)rng_below(r, 2);
        for (int i = 0; i < n; i++) if (!((erased >> i) & 1)) lst[cnt++] = shared_inputs ? (char *)e->frag[i] : (i < k ? ed[i] : ep[i - k]);
        char *out = NULL; uint64_t ol = 0;
        rc = liberasurecode_decode(desc, lst, cnt, fl, (int)rng_below(r, 2), &out, &ol);
        t->ops++;
        if (rc == 0) { if (ol != e->len || memcmp(out, e->data, e->len)) { t->bad_decode++; note_bad(t, "decode returned wrong bytes"); } liberasurecode_decode_cleanup(desc, out); }
        else if (req) { t->bad_decode++; note_bad(t, "decode within tolerance failed"); }
        if (heavy) {
            int dest = __builtin_ctz(erased);
            if (rng_below(r, 2)) for (int i = n - 1; i >= 0; i--) if ((erased >> i) & 1) { dest = i; break; }
            uint8_t *o = malloc(fl);
            rc = liberasurecode_reconstruct_fragment(desc, lst, cnt, fl, dest, (char *)o);
            t->ops++;
            if (rc == 0) { if (memcmp(o, e->frag[dest], fl)) { t->bad_recon++; note_bad(t, "reconstruct returned wrong bytes"); } }
            else if (req) { t->bad_recon++; note_bad(t, "reconstruct within tolerance failed"); }
            free(o);
            /* the whole erased set as the list to rebuild (the planners' multi-element paths), answer checked for the basics */
            int R[40], X[1] = { -1 }, N[40]; int nr = 0;
            for (int i = 0; i < n; i++) if ((erased >> i) & 1) R[nr++] = i;
            R[nr] = -1;
            for (int i = 0; i < 40; i++) N[i] = -7;
            if (liberasurecode_fragments_needed(desc, R, X, N) != 0) { t->bad_query++; note_bad(t, "fragments_needed failed"); }
            else { int endok = 0; for (int i = 0; i <= n && !endok; i++) { if (N[i] == -1) endok = 1; else if (N[i] < 0 || N[i] >= n || ((erased >> N[i]) & 1)) break; }
                   if (!endok) { t->bad_query++; note_bad(t, "fragments_needed answered with a list that is unterminated, out of range or names a fragment to rebuild"); } }
            /* a fragment as an opposite-endian host would have written it reads with the same meaning */
            { uint8_t tw[80]; fragment_metadata_t ma, mb; uint8_t *tf = malloc(fl); memcpy(tf, lst[0], fl);
              int lg = ref_get32((uint8_t *)lst[0] + REF_OFF_MCRC) == crc_legacy((uint8_t *)lst[0], 59) && ref_get32((uint8_t *)lst[0] + REF_OFF_MCRC) != crc_std((uint8_t *)lst[0], 59);
              ref_hdr_twin((uint8_t *)lst[0], tw, lg); memcpy(tf, tw, 80);
              int ra = liberasurecode_get_fragment_metadata(lst[0], &ma), rb = liberasurecode_get_fragment_metadata((char *)tf, &mb);
              if (ra != 0 || rb != 0 || ma.idx != mb.idx || ma.size != mb.size || ma.orig_data_size != mb.orig_data_size || ma.backend_version != mb.backend_version || ma.chksum[0] != mb.chksum[0] || ma.chksum_mismatch != mb.chksum_mismatch
                  || ma.idx != ref_get32((uint8_t *)lst[0] + REF_OFF_IDX) || ma.size != ref_get32((uint8_t *)lst[0] + REF_OFF_SIZE))
                  { t->bad_query++; note_bad(t, "metadata of a fragment / of its opposite-endian twin wrong"); }
              free(tf); t->ops += 2; }
            fragment_metadata_t md;
            if (liberasurecode_get_fragment_metadata(lst[0], &md) != 0 || is_invalid_fragment(desc, lst[0]) || liberasurecode_verify_stripe_metadata(desc, lst, cnt) != 0) { t->bad_query++; note_bad(t, "metadata/validation of a pristine fragment failed"); }
            if (liberasurecode_get_fragment_size(desc, (int)e->len) + 80 != (int)fl || liberasurecode_get_minimum_encode_size(desc) <= 0) { t->bad_query++; note_bad(t, "size query wrong"); }
            t->ops += 5;
        }
    }
    liberasurecode_encode_cleanup(desc, ed, ep);
}

static pthread_barrier_t bar;

static void *worker(void *a)
{
    tres_t *t = a;
    rng_t r; rng_seed(&r, t->seed, (uint64_t)t->tid);
    pthread_barrier_wait(&bar);
    for (int it = 0; it < t->iters; it++) {
        int do_shared = t->mode == 0 || (t->mode == 2 && (it & 1));
        if (do_shared) {
            use_instance(t, t->shared_desc, &EX[t->shared_ex], &r, 1);
        } else {
            const exp_t *e = &EX[(t->tid + it * 3 + (int)rng_below(&r, 2)) % nex];
            int d = lec_create(&e->c);
            t->ops++; t->creates++;
            if (d <= 0) { t->bad_create++; note_bad(t, "create of a supported configuration failed"); continue; }
            live_add(d);
            use_instance(t, d, e, &r, it % 3 == 0);
            live_del(d);
            if (liberasurecode_instance_destroy(d) != 0) { t->bad_destroy++; note_bad(t, "destroy of own instance failed"); }
            t->ops++;
        }
    }
    return NULL;
}

static void collect(tres_t *ta, int nt, const char *what)
{
    for (int i = 0; i < nt; i++) {
        mon_count("evaluations", ta[i].ops); mon_count("thread_ops", ta[i].ops); mon_count("concurrent_creates", ta[i].creates);
        long bad = ta[i].bad_create + ta[i].bad_encode + ta[i].bad_decode + ta[i].bad_recon + ta[i].bad_destroy + ta[i].bad_query;
        if (bad) mon_viol("C18", "non-sequential-result", "%s: thread %d: %ld wrong result(s) (create %ld encode %ld decode %ld reconstruct %ld destroy %ld query %ld); first: %s", what, i, bad,
                          ta[i].bad_create, ta[i].bad_encode, ta[i].bad_decode, ta[i].bad_recon, ta[i].bad_destroy, ta[i].bad_query, ta[i].first_bad);
    }
    long dd = atomic_exchange_explicit(&dup_desc, 0, memory_order_relaxed);
    if (dd) mon_viol("C18", "duplicate-descriptor", "%s: %ld create(s) returned a descriptor that another thread still held", what, dd);
}

static void run_stress(int mode /*0 shared 1 own 2 mixed*/)
{
    static const char *mn[] = { "shared-descriptor", "own-instances", "mixed" };
    int rounds = (MO.thorough ? 40 : 5) * (MO.nshards > 0 ? MO.nshards : 1);
    for (int rd = 0; rd < rounds; rd++) {
        int nt = 2 + (int)((MO.seed + (uint64_t)rd * 5 + (uint64_t)MO.shard) % 15);      /* 2..16 */
        int sx = (rd + MO.shard) % nex;
        if (!mon_case("%s|threads=%d|round=%d|shared=%s", mn[mode], nt, rd, EX[sx].ck)) continue;
        int sd = -1;
        if (mode != 1) { sd = lec_create(&EX[sx].c); if (sd <= 0) { mon_viol("C18", "create-failed", "rc=%d", sd); mon_end(); continue; } }
        live_reset();
        pthread_t th[MAXT]; tres_t ta[MAXT];
        pthread_barrier_init(&bar, NULL, (unsigned)nt);
        for (int i = 0; i < nt; i++) { memset(&ta[i], 0, sizeof ta[i]); ta[i].tid = i; ta[i].mode = mode; ta[i].iters = MO.thorough ? 30 : 12; ta[i].shared_desc = sd; ta[i].shared_ex = sx; ta[i].seed = MO.seed * 1000003 + (uint64_t)mon_case_idx; pthread_create(&th[i], NULL, worker, &ta[i]); }
        for (int i = 0; i < nt; i++) pthread_join(th[i], NULL);
        pthread_barrier_destroy(&bar);
        char what[96]; snprintf(what, sizeof what, "%s %d threads", mn[mode], nt);
        collect(ta, nt, what);
        if (sd > 0) liberasurecode_instance_destroy(sd);
        mon_distinct("nontrivial", mon_hash_u64((uint64_t)mode * 1000 + (uint64_t)nt * 50 + (uint64_t)rd, mon_hash_u64((uint64_t)MO.shard, MO.seed)));
        mon_count("stress_rounds", 1);
        if (rd == 0) mon_sample("{\"workload\":\"%s\",\"threads\":%d,\"iterations_per_thread\":%d,\"shared_config\":\"%s\"}", mn[mode], nt, ta[0].iters, mode != 1 ? EX[sx].ck : "-");
        mon_end();
    }
}

/* ================= directed interleavings ================= */
static __thread int my_tid = -1;
static _Atomic int passed[2][LEC_VP_MAX];
static _Atomic int evlog[4096]; static _Atomic int evn;
static struct { int on, a_thread, a_point, b_point, spins; _Atomic int paused, released, timed_out; } dir;

static void director(int point)
{
    int t = my_tid;
    if (t < 0 || t > 1 || point <= 0 || point >= LEC_VP_MAX) return;
    atomic_fetch_add_explicit(&passed[t][point], 1, memory_order_relaxed);
    int i = atomic_fetch_add_explicit(&evn, 1, memory_order_relaxed);
    if (i < 4096) atomic_store_explicit(&evlog[i], t * 256 + point, memory_order_relaxed);
    if (dir.on && t == dir.a_thread && point == dir.a_point && !atomic_exchange_explicit(&dir.paused, 1, memory_order_relaxed)) {
        int spins = dir.spins;
        while (atomic_load_explicit(&passed[1 - t][dir.b_point], memory_order_relaxed) == 0 && spins-- > 0) sched_yield();
        if (spins <= 0) atomic_store_explicit(&dir.timed_out, 1, memory_order_relaxed); else atomic_store_explicit(&dir.released, 1, memory_order_relaxed);
    }
}
void (*liberasurecode_verif_hook)(int point) = director;

enum { OP_CREATE_RS, OP_CREATE_XOR, OP_DESTROY_RS, OP_DESTROY_XOR, OP_ENCODE, OP_DECODE, OP_QUERY, OP_CYCLE_RS, NOPS };
static const char *opname[] = { "create-rs", "create-xor", "destroy-rs", "destroy-xor", "encode-shared", "decode-shared", "size-query", "create-use-destroy-rs" };
typedef struct { int tid, op, desc, shared_desc; tres_t res; } dthr_t;
static int ex_rs = 0, ex_xor = 2;

static void *dworker(void *a)
{
    dthr_t *d = a; tres_t *t = &d->res;
    my_tid = d->tid;
    rng_t r; rng_seed(&r, MO.seed, (uint64_t)d->tid + 7);
    pthread_barrier_wait(&bar);
    switch (d->op) {
    case OP_CREATE_RS: case OP_CREATE_XOR: {
        const exp_t *e = &EX[d->op == OP_CREATE_RS ? ex_rs : ex_xor];
        int x = lec_create(&e->c); t->ops++; t->creates++;
        if (x <= 0) { t->bad_create++; note_bad(t, "create failed"); break; }
        live_add(x); d->desc = x;
        use_instance(t, x, e, &r, 0);          /* fully initialised? */
    } break;
    case OP_DESTROY_RS: case OP_DESTROY_XOR: { live_del(d->desc); if (liberasurecode_instance_destroy(d->desc) != 0) { t->bad_destroy++; note_bad(t, "destroy failed"); } d->desc = -1; t->ops++; } break;
    case OP_ENCODE: case OP_DECODE: use_instance(t, d->shared_desc, &EX[ex_rs], &r, d->op == OP_DECODE); break;
    case OP_QUERY: { int fs = liberasurecode_get_fragment_size(d->shared_desc, (int)EX[ex_rs].len); t->ops++; if (fs + 80 != (int)EX[ex_rs].flen) { t->bad_query++; note_bad(t, "size query wrong"); } } break;
    case OP_CYCLE_RS: { const exp_t *e = &EX[ex_rs]; int x = lec_create(&e->c); t->ops++; t->creates++; if (x <= 0) { t->bad_create++; note_bad(t, "create failed"); break; } live_add(x); use_instance(t, x, e, &r, 0); live_del(x); if (liberasurecode_instance_destroy(x) != 0) { t->bad_destroy++; note_bad(t, "destroy failed"); } } break;
    }
    my_tid = -1;
    return NULL;
}

/* one directed run: returns 1 if the pause was reached and released, 0 infeasible/not reached */
static int directed_once(int opA, int opB, int p, int q, int keep_rs_alive, uint32_t *hits)
{
    dthr_t D[2]; memset(D, 0, sizeof D);
    int ops[2] = { opA, opB };
    int shared = -1, keeper = -1;
    if (keep_rs_alive) keeper = lec_create(&EX[ex_rs].c);     /* GF tables already exist: "subsequent create" flavour */
    for (int i = 0; i < 2; i++) {
        D[i].tid = i; D[i].op = ops[i];
        if (ops[i] == OP_DESTROY_RS) D[i].desc = lec_create(&EX[ex_rs].c);
        if (ops[i] == OP_DESTROY_XOR) D[i].desc = lec_create(&EX[ex_xor].c);
        if (D[i].desc > 0) live_add(D[i].desc);
        if (ops[i] == OP_ENCODE || ops[i] == OP_DECODE || ops[i] == OP_QUERY) { if (shared < 0) shared = lec_create(&EX[ex_rs].c); D[i].shared_desc = shared; }
    }
    for (int t = 0; t < 2; t++) for (int i = 0; i < LEC_VP_MAX; i++) atomic_store_explicit(&passed[t][i], 0, memory_order_relaxed);
    atomic_store_explicit(&evn, 0, memory_order_relaxed);
    dir.a_thread = 0; dir.a_point = p; dir.b_point = q; dir.spins = 3000;
    atomic_store_explicit(&dir.paused, 0, memory_order_relaxed); atomic_store_explicit(&dir.released, 0, memory_order_relaxed); atomic_store_explicit(&dir.timed_out, 0, memory_order_relaxed);
    dir.on = p > 0;
    pthread_t th[2];
    pthread_barrier_init(&bar, NULL, 2);
    for (int i = 0; i < 2; i++) pthread_create(&th[i], NULL, dworker, &D[i]);
    for (int i = 0; i < 2; i++) pthread_join(th[i], NULL);
    pthread_barrier_destroy(&bar);
    dir.on = 0;
    tres_t ta[2] = { D[0].res, D[1].res };
    char what[160]; snprintf(what, sizeof what, "directed %s || %s, A pauses at point %d until B passed %d", opname[opA], opname[opB], p, q);
    collect(ta, 2, what);
    /* interleaving signature */
    int ne = atomic_load_explicit(&evn, memory_order_relaxed); if (ne > 4096) ne = 4096;
    uint64_t h = 1469598103934665603ull;
    for (int i = 0; i < ne; i++) h = mon_hash_u64((uint64_t)atomic_load_explicit(&evlog[i], memory_order_relaxed), h);
    mon_distinct("interleavings", h);
    if (hits) { hits[0] = hits[1] = 0; for (int t = 0; t < 2; t++) for (int i = 1; i < LEC_VP_MAX; i++) if (atomic_load_explicit(&passed[t][i], memory_order_relaxed)) hits[t] |= 1u << i; }
    for (int i = 0; i < 2; i++) if (D[i].desc > 0) { live_del(D[i].desc); liberasurecode_instance_destroy(D[i].desc); }
    if (shared > 0) liberasurecode_instance_destroy(shared);
    if (keeper > 0) liberasurecode_instance_destroy(keeper);
    int rel = atomic_load_explicit(&dir.released, memory_order_relaxed), to = atomic_load_explicit(&dir.timed_out, memory_order_relaxed);
    mon_count("directed_runs", 1);
    if (p > 0) mon_count(rel ? "directed_orderings_realised" : (to ? "directed_orderings_infeasible" : "directed_pause_point_not_reached"), 1);
    return rel;
}

static void run_directed(void)
{
    live_reset();
    for (int keep = 0; keep < 2; keep++)
    for (int a = 0; a < NOPS; a++) for (int b = 0; b < NOPS; b++) {
        if (!MO.thorough && ((a * NOPS + b + keep) % 3) != (int)(MO.seed % 3) && !(a <= OP_CREATE_XOR && b <= OP_CREATE_XOR) && !(a == OP_CYCLE_RS || b == OP_CYCLE_RS)) continue;
        /* dry run: which points do the two operations hit? */
        uint32_t hits[2] = {0, 0};
        int probed = 0;
        if (mon_case_all("directed|%s||%s|keep-rs=%d|probe", opname[a], opname[b], keep)) { directed_once(a, b, 0, 0, keep, hits); probed = 1; mon_end(); }
        if (!probed) continue;
        for (int p = 1; p < LEC_VP_MAX; p++) for (int q = 1; q < LEC_VP_MAX; q++) {
            if (!((hits[0] >> p) & 1) || !((hits[1] >> q) & 1)) continue;
            if (!mon_case("directed|%s||%s|keep-rs=%d|A@%d-until-B@%d", opname[a], opname[b], keep, p, q)) continue;
            directed_once(a, b, p, q, keep, NULL);
            mon_distinct("nontrivial", mon_hash_u64((uint64_t)((a * NOPS + b) * 2 + keep) * 1024 + (uint64_t)p * 32 + (uint64_t)q, 0x18));
            if (p == 14 && q == 16) mon_sample("{\"thread_A\":\"%s\",\"thread_B\":\"%s\",\"rs_instance_alive_before\":%d,\"A_pauses_at_point\":%d,\"until_B_passed_point\":%d}", opname[a], opname[b], keep, p, q);
            mon_end();
        }
    }
    /* PCT-style: random pause points, three threads are approximated by two workers + main thread activity */
    int nr = MO.thorough ? 3000 : 200;
    for (int i = 0; i < nr; i++) {
        rng_t r; rng_seed(&r, MO.seed, 0x18500 + (uint64_t)i);
        int a = (int)rng_below(&r, NOPS), b = (int)rng_below(&r, NOPS), p = 1 + (int)rng_below(&r, LEC_VP_MAX - 1), q = 1 + (int)rng_below(&r, LEC_VP_MAX - 1);
        if (!mon_case("directed-random#%d|%s||%s|A@%d-until-B@%d", i, opname[a], opname[b], p, q)) continue;
        directed_once(a, b, p, q, i & 1, NULL);
        mon_end();
    }
}

/* ---- descriptors nobody was given: while one thread makes creates that FAIL in the backend's init (unsupported flat-XOR
 * shape, word sizes the Jerasure and ISA-L adapters refuse - the plug-in is loaded, init runs, everything is undone), another
 * thread keeps calling encode and the size query with the descriptor numbers that would be handed out next.  No create ever
 * succeeds in this mode, so every such call must be refused: an instance is visible to other threads only once create has
 * returned its descriptor.  (Reads the library's descriptor counter without its lock: ASan build only.) ---- */
extern int next_backend_desc;
static atomic_int pr_stop; static atomic_long pr_calls, pr_accepted;
static void *probe_main(void *v)
{
    (void)v; uint8_t data[256]; memset(data, 0x5c, sizeof data);
    while (!atomic_load(&pr_stop)) {
        int base = __atomic_load_n(&next_backend_desc, __ATOMIC_RELAXED);
        for (int d = base + 1; d <= base + 3; d++) {
            if (d <= 0) continue;
            char **ed = NULL, **ep = NULL; uint64_t fl = 0;
            int rc = liberasurecode_encode(d, (char *)data, sizeof data, &ed, &ep, &fl);
            if (rc == 0) { atomic_fetch_add(&pr_accepted, 1); liberasurecode_encode_cleanup(d, ed, ep); }
            if (liberasurecode_get_fragment_size(d, 1000) >= 0) atomic_fetch_add(&pr_accepted, 1);
            if (liberasurecode_get_minimum_encode_size(d) >= 0) atomic_fetch_add(&pr_accepted, 1);
            atomic_fetch_add(&pr_calls, 3);
        }
    }
    return NULL;
}
static void run_probe(void)
{
    int rounds = MO.thorough ? 64 : 8;
    for (int round = 0; round < rounds; round++) {
        if (!mon_case("probe-unissued-descriptors|round=%d", round)) continue;
        atomic_store(&pr_stop, 0); atomic_store(&pr_calls, 0); atomic_store(&pr_accepted, 0);
        pthread_t th; pthread_create(&th, NULL, probe_main, NULL);
        long failed = 0, succeeded = 0;
        for (int i = 0; i < (MO.thorough ? 6000 : 2500); i++) {
            struct ec_args a; memset(&a, 0, sizeof a); int be;
            switch (i % 3) {
            case 0: be = EC_BACKEND_FLAT_XOR_HD; a.k = 10; a.m = 5; a.hd = 5; break;
            case 1: be = EC_BACKEND_JERASURE_RS_VAND; a.k = 4; a.m = 2; a.w = 7; a.hd = 2; break;
            default: be = isal_ok ? EC_BACKEND_ISA_L_RS_VAND : EC_BACKEND_FLAT_XOR_HD; a.k = isal_ok ? 4 : 7; a.m = isal_ok ? 2 : 7; a.w = isal_ok ? 4 : 0; a.hd = isal_ok ? 2 : 3; break;
            }
            a.ct = CHKSUM_NONE;
            if (!liberasurecode_backend_available((ec_backend_id_t)be)) continue;
            int d = liberasurecode_instance_create((ec_backend_id_t)be, &a);
            if (d > 0) { succeeded++; liberasurecode_instance_destroy(d); } else failed++;
        }
        atomic_store(&pr_stop, 1); pthread_join(th, NULL);
        mon_count("evaluations", failed); mon_count("probe_calls_on_unissued_descriptors", atomic_load(&pr_calls));       /* one evaluation per failing create that was probed, not per probing call */ mon_count("creates_failing_in_backend_init", failed);
        if (succeeded) mon_logf("HARNESS probe mode: %ld creates meant to fail succeeded", succeeded);
        else if (atomic_load(&pr_accepted)) mon_viol("C18", "unissued-descriptor-accepted", "%ld of %ld calls through descriptor numbers that no create had returned were accepted while creates were failing in the backend's init", atomic_load(&pr_accepted), atomic_load(&pr_calls));
        mon_distinct("nontrivial", mon_hash_u64((uint64_t)round, 0x1866));
        mon_end();
    }
}

int main(int argc, char **argv)
{
    mon_init(argc, argv);
    LEC_PROP = "C18";
    isal_ok = liberasurecode_backend_available(EC_BACKEND_ISA_L_RS_VAND);
    build_expectations();
    for (int i = 0; i < nex; i++) { if (EX[i].c.be == EC_BACKEND_LIBERASURECODE_RS_VAND && EX[i].c.k == 4) ex_rs = i; if (EX[i].c.be == EC_BACKEND_FLAT_XOR_HD && EX[i].c.k == 10) ex_xor = i; }
    if (!strcmp(MO.mode, "shared")) run_stress(0);
    else if (!strcmp(MO.mode, "own")) run_stress(1);
    else if (!strcmp(MO.mode, "mixed")) run_stress(2);
    else if (!strcmp(MO.mode, "directed")) run_directed();
    else if (!strcmp(MO.mode, "probe")) run_probe();
    else { run_stress(0); run_stress(1); run_stress(2); run_directed(); }
    mon_finish();
    return 0;
}
