/* Format monitors: C07 (wire format), C08 (size queries), C09 (header acceptance
 * predicate), C10 (payload checksums), C11 (opposite-endian fragments), C12
 * (fragment validation). Oracles: ref/ serializer, bitwise CRCs, raw-byte
 * predicates written from the property texts. */
#include "lec.h"
#include <sys/mman.h>
#include "erasurecode_backend.h"
#include "erasurecode_helpers_ext.h"
#include <stdio.h>
#include <stdlib.h>
#include <string.h>
#include <stddef.h>

#define PROP LEC_PROP
extern int liberasurecode_crc32_alt(int crc, const void *buf, size_t size);
extern int is_invalid_fragment_header(fragment_header_t *header);

static int isal_ok;

static int all_cfgs(cfg_t *cfgs, int max, int rs_thorough, int with_null)
{
    int nc = 0;
    nc += cfgs_rs(cfgs + nc, max - nc, EC_BACKEND_LIBERASURECODE_RS_VAND, rs_thorough, MO.seed);
    nc += cfgs_xor(cfgs + nc, max - nc);
    if (isal_ok) {
        nc += cfgs_rs(cfgs + nc, max - nc, EC_BACKEND_ISA_L_RS_VAND, 0, MO.seed + 1);
        nc += cfgs_rs(cfgs + nc, max - nc, EC_BACKEND_ISA_L_RS_CAUCHY, 0, MO.seed + 2);
    }
    nc += cfgs_shss(cfgs + nc, max - nc);
    nc += cfgs_jer(cfgs + nc, max - nc);
    nc += cfgs_phazr(cfgs + nc, max - nc);
    if (with_null) {
        static const int nk[][2] = { {1, 1}, {4, 2}, {10, 4}, {16, 16}, {3, 0} };
        for (int i = 0; i < 5 && nc < max; i++) cfgs[nc++] = (cfg_t){ EC_BACKEND_NULL, nk[i][0], nk[i][1], nk[i][1], 0, CHKSUM_CRC32 };
    }
    return nc;
}

static void set_legacy(int mode)
{
    /* 0 unset, 1 "", 2 "0", 3 "1", 4 "yes" */
    static const char *vals[] = { NULL, "", "0", "1", "yes" };
    (void)vals;
    lec_env_legacy(mode);
    LEC_MODEL_LEGACY = mode >= 3;
}
static const char *legacy_name[] = { "unset", "empty", "0", "1", "yes" };

/* ================================================================ C07 */
static void run_wire(void)
{
    /* layout facts of the public header struct, reported as runtime events */
    if (mon_case_all("layout|sizeof-offsetof")) {
        struct { const char *n; size_t got, want; } f[] = {
            { "sizeof(fragment_header_t)", sizeof(fragment_header_t), 80 },
            { "sizeof(fragment_metadata_t)", sizeof(fragment_metadata_t), 59 },
            { "idx", offsetof(fragment_header_t, meta.idx), 0 },
            { "size", offsetof(fragment_header_t, meta.size), 4 },
            { "frag_backend_metadata_size", offsetof(fragment_header_t, meta.frag_backend_metadata_size), 8 },
            { "orig_data_size", offsetof(fragment_header_t, meta.orig_data_size), 12 },
            { "chksum_type", offsetof(fragment_header_t, meta.chksum_type), 20 },
            { "chksum", offsetof(fragment_header_t, meta.chksum), 21 },
            { "chksum_mismatch", offsetof(fragment_header_t, meta.chksum_mismatch), 53 },
            { "backend_id", offsetof(fragment_header_t, meta.backend_id), 54 },
            { "backend_version", offsetof(fragment_header_t, meta.backend_version), 55 },
            { "magic", offsetof(fragment_header_t, magic), 59 },
            { "libec_version", offsetof(fragment_header_t, libec_version), 63 },
            { "metadata_chksum", offsetof(fragment_header_t, metadata_chksum), 67 },
            { "aligned_padding", offsetof(fragment_header_t, aligned_padding), 71 },
            { "magic value", LIBERASURECODE_FRAG_HEADER_MAGIC, 0x0b0c5ecc },
            { "EC_BACKEND_NULL", EC_BACKEND_NULL, 0 }, { "EC_BACKEND_FLAT_XOR_HD", EC_BACKEND_FLAT_XOR_HD, 3 },
            { "EC_BACKEND_ISA_L_RS_VAND", EC_BACKEND_ISA_L_RS_VAND, 4 }, { "EC_BACKEND_LIBERASURECODE_RS_VAND", EC_BACKEND_LIBERASURECODE_RS_VAND, 6 },
            { "EC_BACKEND_ISA_L_RS_CAUCHY", EC_BACKEND_ISA_L_RS_CAUCHY, 7 }, { "CHKSUM_NONE", CHKSUM_NONE, 1 }, { "CHKSUM_CRC32", CHKSUM_CRC32, 2 },
        };
        for (size_t i = 0; i < sizeof f / sizeof f[0]; i++) {
            mon_count0("layout_facts_checked", 1);
            if (f[i].got != f[i].want) mon_viol("C07", "layout", "%s is %zu, wire format says %zu", f[i].n, f[i].got, f[i].want);
        }
        mon_end();
    }
    static cfg_t cfgs[1200];
    int nc = all_cfgs(cfgs, 1200, MO.thorough, 1);
    for (int ci = 0; ci < nc; ci++) {
        for (int ct = CHKSUM_NONE; ct <= CHKSUM_MD5; ct++) {       /* every defined checksum type (MD5: type byte 3, no checksum words) */
            int lm = (ci + ct) % 5;
            if (!MO.thorough && ct == CHKSUM_NONE && ci % 3) continue;
            if (!MO.thorough && ct == CHKSUM_MD5 && ci % 3 != 1) continue;
            cfg_t c = cfgs[ci]; c.ct = ct;
            set_legacy(lm);
            char ck[96]; cfg_key(&c, ck, sizeof ck);
            int desc = -1;
            if (mon_case_all("%s|create", ck)) { desc = lec_create(&c); if (desc <= 0) mon_viol("C07", "create-failed", "rc=%d", desc); mon_end(); }
            if (desc <= 0) continue;
            rng_t r; rng_seed(&r, MO.seed, mon_hash_str(ck, 31));
            cfg_use(&c);
            cfg_use(&c);
        uint64_t A = (uint64_t)c.k * (uint64_t)ref_word_bytes(c.be);
            uint64_t lens[40]; int nl = lengths_for(A, MO.thorough, &r, lens, 20);
            if (MO.thorough) for (int q = 0; q < 14; q++) lens[nl++] = rng_below(&r, 3) ? rng_below(&r, 20000) : (uint64_t)c.k * (uint64_t)ref_word_bytes(c.be) * rng_below(&r, 300) + rng_below(&r, 3);
            if (MO.thorough && ci % 25 == 0) lens[nl++] = (1u << 20) - rng_below(&r, 3);
            for (int li = 0; li < nl; li++) {
                int kind = (li % 3 == 2) ? 1 + (int)rng_below(&r, DATA_KINDS - 1) : DATA_RANDOM;
                if (!mon_case("%s|legacy=%s|len=%llu|data=%s", ck, legacy_name[lm], (unsigned long long)lens[li], data_kind_name(kind))) continue;
                rng_t rc; rng_case(&rc);
                uint64_t len = lens[li];
                uint8_t *d = malloc(len ? len : 1);
                data_fill(d, len, kind, &rc, c.k, ref_payload_size(c.be, c.k, len));
                char **ed = NULL, **ep = NULL; uint64_t flen = 0;
                int rcode = liberasurecode_encode(desc, (char *)d, len, &ed, &ep, &flen);
                mon_count("evaluations", 1);
                if (rcode != 0) mon_viol("C07", "encode-failed", "encode(%llu) returned %d", (unsigned long long)len, rcode);
                else {
                    uint64_t ef = model_fragment_len(&c, len);
                    int n = c.k + c.m;
                    if (flen != ef) mon_viol("C07", "fragment-length", "fragment_len %llu, model %llu", (unsigned long long)flen, (unsigned long long)ef);
                    else {
                        uint8_t *exp[64];
                        for (int f = 0; f < n; f++) exp[f] = malloc(ef);
                        model_stripe(&c, d, len, LEC_MODEL_LEGACY, exp);
                        for (int f = 0; f < n; f++) {
                            const uint8_t *got = (const uint8_t *)(f < c.k ? ed[f] : ep[f - c.k]);
                            mon_count("fragments_compared", 1);
                            /* null backend: parity payload is unspecified by the property -> header + data only */
                            uint64_t cmp = (c.be == EC_BACKEND_NULL && f >= c.k) ? 0 : ef;
                            if (cmp == 0) {
                                /* header fields except payload checksum / metadata crc */
                                if (memcmp(got, exp[f], REF_OFF_CHKSUM) || memcmp(got + REF_OFF_MISMATCH, exp[f] + REF_OFF_MISMATCH, REF_OFF_MCRC - REF_OFF_MISMATCH))
                                    mon_viol("C07", "null-parity-header", "null backend parity header fields differ from the model");
                                continue;
                            }
                            if (memcmp(got, exp[f], cmp)) {
                                uint64_t off = 0; while (got[off] == exp[f][off]) off++;
                                mon_viol("C07", "bytes-differ", "fragment %d byte %llu (%s): library %02x, reference serializer %02x (len=%llu legacy=%s)",
                                         f, (unsigned long long)off, off < 80 ? "header" : "payload", got[off], exp[f][off], (unsigned long long)len, legacy_name[lm]);
                                break;
                            }
                        }
                        /* the same coordinates written by the OTHER writer: one fragment rebuilt from the rest into a 16-aligned
                         * buffer the caller recycles (it still holds what the previous call - another stripe, another instance -
                         * left there) has the serializer's bytes as well */
                        if (cfg_tol(&c) >= 1 && c.be != EC_BACKEND_NULL) {
                            static uint8_t *recycle; static uint64_t rcap;
                            if (rcap < ef) { free(recycle); rcap = ef * 2 + 64; if (posix_memalign((void **)&recycle, 16, rcap)) abort(); memset(recycle, 0x5A, rcap); }
                            int lost = (int)((uint64_t)li * 5 + (uint64_t)ci) % n; char *lst[64]; int cnt = 0;
                            for (int f = 0; f < n; f++) if (f != lost) lst[cnt++] = f < c.k ? ed[f] : ep[f - c.k];
                            int rr = liberasurecode_reconstruct_fragment(desc, lst, cnt, flen, lost, (char *)recycle);
                            mon_count("evaluations", 1); mon_count("fragments_rebuilt_into_a_recycled_buffer", 1);
                            if (rr != 0) mon_viol("C07", "reconstruct-failed", "reconstruct(%d) of a stripe encode just wrote returned %d", lost, rr);
                            else if (memcmp(recycle, exp[lost], ef)) { uint64_t off = 0; while (recycle[off] == exp[lost][off]) off++;
                                mon_viol("C07", "rebuilt-bytes-differ", "fragment %d rebuilt into a recycled buffer, byte %llu (%s): library %02x, reference serializer %02x (len=%llu)", lost, (unsigned long long)off, off < 80 ? "header" : "payload", recycle[off], exp[lost][off], (unsigned long long)len); }
                        }
                        for (int f = 0; f < n; f++) free(exp[f]);
                        mon_distinct("nontrivial", mon_hash_u64(len, mon_hash_str(ck, (uint64_t)lm * 7 + (uint64_t)kind)));
                        if (li == 2 && ci % 37 == 0)
                            mon_sample("{\"config\":\"%s\",\"len\":%llu,\"data\":\"%s\",\"legacy_switch\":\"%s\",\"fragment_len\":%llu,\"fragments\":%d}", ck, (unsigned long long)len, data_kind_name(kind), legacy_name[lm], (unsigned long long)flen, n);
                    }
                    liberasurecode_encode_cleanup(desc, ed, ep);
                }
                free(d);
                mon_end();
            }
            if (mon_case_all("%s|destroy", ck)) { liberasurecode_instance_destroy(desc); mon_end(); }
        }
    }
    set_legacy(0);
}

/* ================================================================ C08 */
static void check_sizes(const cfg_t *c, const char *ck, int desc, uint64_t len, int do_encode)
{
    cfg_use(c);
    uint64_t A = (uint64_t)c->k * (uint64_t)ref_word_bytes(c->be);
    /* the public aligned-size query goes by the backend's element size, which for the ISA-L adapters is one byte whatever
     * word size the instance was created with; encode and the fragment-size query pad to the instance's word size */
    int isal = c->be == EC_BACKEND_ISA_L_RS_VAND || c->be == EC_BACKEND_ISA_L_RS_CAUCHY;
    uint64_t Apub = isal ? (uint64_t)c->k : A;
    int fs = liberasurecode_get_fragment_size(desc, (int)len);
    int al = liberasurecode_get_aligned_data_size(desc, len);
    uint64_t want_pub = ((len + Apub - 1) / Apub) * Apub;
    uint64_t want_al = ((len + A - 1) / A) * A;
    mon_count("evaluations", 2);
    if ((uint64_t)al != want_pub) mon_viol("C08", "aligned-size", "get_aligned_data_size(%llu)=%d, smallest multiple of %llu >= len is %llu", (unsigned long long)len, al, (unsigned long long)Apub, (unsigned long long)want_pub);
    uint64_t bms = ref_backend_metadata_bytes(c->be, want_al / (uint64_t)c->k);
    if ((uint64_t)fs != want_al / (uint64_t)c->k + bms) mon_viol("C08", "fragment-size-model", "get_fragment_size(%llu)=%d, model payload %llu + backend metadata %llu", (unsigned long long)len, fs, (unsigned long long)(want_al / (uint64_t)c->k), (unsigned long long)bms);
    if (do_encode) {
        uint8_t *d = calloc(1, len ? len : 1);
        for (uint64_t i = 0; i < len; i += 97) d[i] = (uint8_t)(i * 131 + 7);
        char **ed = NULL, **ep = NULL; uint64_t flen = 0;
        int rc = liberasurecode_encode(desc, (char *)d, len, &ed, &ep, &flen);
        mon_count("evaluations", 1); mon_count("encodes", 1);
        if (rc != 0) mon_viol("C08", "encode-failed", "encode(%llu) returned %d", (unsigned long long)len, rc);
        else {
            if ((uint64_t)fs + 80 != flen) mon_viol("C08", "fragment-size-vs-encode", "get_fragment_size(%llu)+80=%d but encode produced fragment_len %llu", (unsigned long long)len, fs + 80, (unsigned long long)flen);
            for (int f = 0; f < c->k + c->m; f++) {
                const uint8_t *h = (const uint8_t *)(f < c->k ? ed[f] : ep[f - c->k]);
                if (ref_get32(h + REF_OFF_SIZE) + ref_get32(h + REF_OFF_BMS) != (uint32_t)fs || ref_get32(h + REF_OFF_BMS) != (uint32_t)bms) { mon_viol("C08", "header-size-field", "header size field %u + backend metadata size %u of fragment %d != get_fragment_size %d", ref_get32(h + REF_OFF_SIZE), ref_get32(h + REF_OFF_BMS), f, fs); break; }
                if (ref_get64(h + REF_OFF_ORIG) != len) { mon_viol("C08", "header-orig-field", "header orig_data_size %llu != %llu", (unsigned long long)ref_get64(h + REF_OFF_ORIG), (unsigned long long)len); break; }
            }
            liberasurecode_encode_cleanup(desc, ed, ep);
        }
        free(d);
        /* an encode that is refused half-way (a length whose buffers cannot be had: 3 GiB, negative as an int) between
         * two queries for the same length: the answers are a function of (instance, length), not of what was attempted last */
        static uint8_t *huge; static long nth;
        if (!huge) { huge = mmap(NULL, 0xC0000000ull, PROT_READ, MAP_PRIVATE | MAP_ANONYMOUS | MAP_NORESERVE, -1, 0); if (huge == MAP_FAILED) huge = NULL; }
        if (huge && nth++ % 5 == 0 && c->be != EC_BACKEND_NULL) {
            char **hd = NULL, **hp = NULL; uint64_t hl = 0;
            int hrc = liberasurecode_encode(desc, (char *)huge, 0xC0000000ull - (uint64_t)(nth % 7), &hd, &hp, &hl);
            mon_count("evaluations", 1); mon_count(hrc == 0 ? "oversized_encodes_accepted" : "oversized_encodes_refused", 1);
            if (hrc == 0) liberasurecode_encode_cleanup(desc, hd, hp);
            int fs2 = liberasurecode_get_fragment_size(desc, (int)len), al2 = liberasurecode_get_aligned_data_size(desc, len), mn2 = liberasurecode_get_minimum_encode_size(desc);
            if (fs2 != fs || al2 != al) mon_viol("C08", "size-query-depends-on-history", "after an encode of 3 GiB that returned %d: get_fragment_size(%llu) %d -> %d, get_aligned_data_size %d -> %d", hrc, (unsigned long long)len, fs, fs2, al, al2);
            (void)mn2;
        }
    }
    (void)ck;
}

static void run_sizes(void)
{
    static cfg_t cfgs[1200];
    int nc = all_cfgs(cfgs, 1200, MO.thorough, 1);
    /* word sizes that are not a whole number of bytes (libphazr is the one adapter that takes and reports any w): the
     * word size in bytes is w / 8 rounded down, in every query and in encode alike */
    if (liberasurecode_backend_available(EC_BACKEND_LIBPHAZR)) {
        static const int sh[][4] = { {4, 2, 1, 20}, {3, 2, 1, 17}, {5, 3, 2, 36}, {2, 2, 1, 30} };
        for (size_t i = 0; i < sizeof sh / sizeof sh[0] && nc < 1200; i++) cfgs[nc++] = (cfg_t){ EC_BACKEND_LIBPHAZR, sh[i][0], sh[i][1], sh[i][2], sh[i][3], CHKSUM_CRC32 };
    }
    /* an instance that stays alive while all the others come and go: its answers never change */
    cfg_t anchor_c = { EC_BACKEND_LIBERASURECODE_RS_VAND, 4, 2, 2, 0, CHKSUM_CRC32 }; int anchor = -1;
    if (mon_case_all("anchor|create")) { anchor = lec_create(&anchor_c); if (anchor <= 0) mon_viol("C08", "create-failed", "anchor rc=%d", anchor); mon_end(); }
    for (int ci = 0; ci < nc; ci++) {
        if (anchor > 0 && ci > 0 && mon_case("anchor|after-%d-other-instances", ci)) {
            cfg_use(&anchor_c);
            for (uint64_t len = 0; len <= 40; len += (len < 18 ? 1 : 11)) check_sizes(&anchor_c, "anchor", anchor, len, len % 3 == 0);
            mon_count("anchor_instance_rechecks", 1);
            mon_end();
        }
        cfg_t c = cfgs[ci]; c.ct = (ci & 1) ? CHKSUM_NONE : CHKSUM_CRC32;
        char ck[96]; cfg_key(&c, ck, sizeof ck);
        int desc = -1;
        if (mon_case_all("%s|create", ck)) { desc = lec_create(&c); if (desc <= 0) mon_viol("C08", "create-failed", "rc=%d", desc); mon_end(); }
        if (desc <= 0) continue;
        cfg_use(&c);
        uint64_t A = (uint64_t)c.k * (uint64_t)ref_word_bytes(c.be);
        if (mon_case("%s|minimum-encode-size", ck)) {
            int mn = liberasurecode_get_minimum_encode_size(desc);
            mon_count("evaluations", 1);
            int al1 = liberasurecode_get_aligned_data_size(desc, 1);
            uint64_t Apub = (c.be == EC_BACKEND_ISA_L_RS_VAND || c.be == EC_BACKEND_ISA_L_RS_CAUCHY) ? (uint64_t)c.k : A;
            if (mn != al1 || (uint64_t)mn != Apub) mon_viol("C08", "minimum-encode-size", "get_minimum_encode_size=%d, get_aligned_data_size(1)=%d, model %llu", mn, al1, (unsigned long long)Apub);
            mon_end();
        }
        /* dense block 0..4A+1 */
        uint64_t dense = 4 * A + 1;
        for (uint64_t base = 0; base <= dense; base += 16) {
            if (!mon_case("%s|len=%llu..%llu|dense", ck, (unsigned long long)base, (unsigned long long)(base + 15))) continue;
            for (uint64_t len = base; len < base + 16 && len <= dense; len++) {
                check_sizes(&c, ck, desc, len, 1);
                mon_distinct("nontrivial", mon_hash_u64(len, mon_hash_str(ck, 41)));
            }
            mon_end();
        }
        /* windows around multiples of A up to 64 KiB; powers of two +-1 up to 2^20 */
        rng_t r; rng_seed(&r, MO.seed, mon_hash_str(ck, 42));
        int nwin = MO.thorough ? 200 : 8;
        for (int w = 0; w < nwin; w++) {
            uint64_t mult = 5 + rng_below(&r, (uint32_t)(65536 / A + 1));
            uint64_t center = mult * A;
            if (!mon_case("%s|window@%llu", ck, (unsigned long long)center)) continue;
            for (int64_t dlt = -2; dlt <= 2; dlt++) {
                uint64_t len = center + (uint64_t)dlt;
                check_sizes(&c, ck, desc, len, dlt != 2);
                mon_distinct("nontrivial", mon_hash_u64(len, mon_hash_str(ck, 41)));
            }
            if (w == 0 && ci % 29 == 0) mon_sample("{\"config\":\"%s\",\"alignment_unit\":%llu,\"lengths\":[%llu,%llu,%llu,%llu,%llu]}", ck, (unsigned long long)A, (unsigned long long)center - 2, (unsigned long long)center - 1, (unsigned long long)center, (unsigned long long)center + 1, (unsigned long long)center + 2);
            mon_end();
        }
        for (int p2 = 7; p2 <= 20; p2++) {
            if (!MO.thorough && p2 > 16 && (ci + p2) % 4) continue;
            if (!mon_case("%s|pow2=%d", ck, p2)) continue;
            for (int64_t dlt = -1; dlt <= 1; dlt++) {
                uint64_t len = (1ull << p2) + (uint64_t)dlt;
                check_sizes(&c, ck, desc, len, p2 <= 16 || dlt == 0);
                mon_distinct("nontrivial", mon_hash_u64(len, mon_hash_str(ck, 41)));
            }
            mon_end();
        }
        /* lengths far beyond anything that gets encoded here: 2^21..2^30 +-1, random ones between 2^29 and the largest
         * whose aligned size still fits the int the queries return, and that largest length itself (queries only) */
        if (mon_case("%s|large-lengths", ck)) {
            /* a length is asked about only if the answer (payload + backend metadata) fits the int the query returns */
#define FITS(len) ((((len) + A - 1) / A * A) / (uint64_t)c.k + ref_backend_metadata_bytes(c.be, (((len) + A - 1) / A * A) / (uint64_t)c.k) <= 0x7fffffffull)
            for (int p2 = 21; p2 <= 30; p2++) for (int64_t dlt = -1; dlt <= 1; dlt++) { if (!FITS((1ull << p2) + (uint64_t)dlt)) continue; check_sizes(&c, ck, desc, (1ull << p2) + (uint64_t)dlt, 0); mon_distinct("nontrivial", mon_hash_u64((1ull << p2) + (uint64_t)dlt, mon_hash_str(ck, 41))); }
            uint64_t top = 0x7fffffffull - A;
            for (uint64_t dlt = 0; dlt < 3; dlt++) if (FITS(top - dlt)) check_sizes(&c, ck, desc, top - dlt, 0);
            for (int q = 0; q < (MO.thorough ? 64 : 12); q++) { uint64_t len = (1ull << 29) + rng_u64(&r) % (top - (1ull << 29)); if (!FITS(len)) continue; check_sizes(&c, ck, desc, len, 0); mon_distinct("nontrivial", mon_hash_u64(len, mon_hash_str(ck, 41))); }
            mon_count("large_length_queries", 1);
            mon_end();
        }
        int destroyed = 0;
        if (mon_case_all("%s|destroy", ck)) { destroyed = liberasurecode_instance_destroy(desc) == 0; mon_end(); }
        /* queries on unknown / destroyed descriptors */
        if (destroyed && mon_case("%s|dead-descriptor-queries", ck)) {
            int ds[] = { desc, 0, -1, 0x7fffffff, desc + 1000 };
            for (size_t i = 0; i < sizeof ds / sizeof ds[0]; i++) {
                int a = liberasurecode_get_aligned_data_size(ds[i], 100), b = liberasurecode_get_minimum_encode_size(ds[i]), f = liberasurecode_get_fragment_size(ds[i], 100);
                mon_count("evaluations", 3); mon_count("dead_descriptor_queries", 3);
                if (a >= 0 || b >= 0 || f >= 0) mon_viol("C08", "dead-descriptor-not-negative", "size queries on descriptor %d returned %d/%d/%d", ds[i], a, b, f);
            }
            mon_end();
        }
    }
    if (anchor > 0 && mon_case_all("anchor|destroy")) { if (liberasurecode_instance_destroy(anchor) != 0) mon_viol("C08", "destroy-failed", "anchor instance could not be destroyed at the end"); mon_end(); }
}

/* ================================================================ C09 */
/* logical size field of a header, honouring its byte order */
static uint64_t hdr_claim(const uint8_t *h, uint64_t *orig)
{
    uint32_t sz = ref_get32(h + REF_OFF_SIZE), bms = ref_get32(h + REF_OFF_BMS);
    uint64_t og = ref_get64(h + REF_OFF_ORIG);
    if (!ref_hdr_host_order(h) && ref_get32(h + REF_OFF_MAGIC) == ref_bswap32(REF_MAGIC)) { sz = ref_bswap32(sz); bms = ref_bswap32(bms); og = ref_bswap64(og); }
    *orig = og;
    return (uint64_t)sz + (uint64_t)bms;
}

typedef struct { ctx_t *x; int si; int fidx; long nmut; } mctx_t;

/* evaluate one mutated header `h` (80 bytes) placed in front of fragment fidx's payload */
static void eval_mutant(mctx_t *mc, const uint8_t *h, const char *what)
{
    stripe_t *s = &mc->x->st[mc->si];
    uint64_t P = s->flen - 80;
    int acc = ref_hdr_accept(h);
    uint64_t og; uint64_t claim = hdr_claim(h, &og);
    if (acc && claim > P) { mon_count("mutants_discarded_forged_size", 1); return; }   /* forged input, not corruption (DESIGN 4.1) */
    uint8_t *f = malloc(s->flen);
    /* every other mutant: the pristine fragment is verified in this very buffer first and then edited in place (a verdict is
     * about the bytes at the call, not about what was last seen at an address) */
    if (mc->nmut % 2 == 1) {
        memcpy(f, s->frag[mc->fidx], s->flen);
        fragment_metadata_t m0; int r0 = liberasurecode_get_fragment_metadata((char *)f, &m0); int h0 = is_invalid_fragment_header((fragment_header_t *)f);
        if (r0 != 0 || h0 != 0) mon_viol("C09", "valid-header-rejected", "%s: the fragment as encode wrote it is rejected (rc %d, header verdict %d)", what, r0, h0);
        mon_count("mutants_edited_in_place_after_a_good_verdict", 1);
    }
    memcpy(f, h, 80); memcpy(f + 80, s->frag[mc->fidx] + 80, P);
    uint8_t *before = malloc(s->flen); memcpy(before, f, s->flen);
    fragment_metadata_t md; memset(&md, 0x5a, sizeof md);
    int rc = liberasurecode_get_fragment_metadata((char *)f, &md);
    mon_count("evaluations", 1); mon_count("metadata_queries", 1);
    mc->nmut++;
    if (acc) {
        mon_count("mutants_accepted_by_reference", 1);
        if (rc != 0) mon_viol("C09", "valid-header-rejected", "%s: reference predicate accepts but get_fragment_metadata returned %d", what, rc);
    } else {
        mon_count("mutants_rejected_by_reference", 1);
        if (rc != -EBADHEADER) mon_viol("C09", rc == 0 ? "invalid-header-accepted" : "wrong-error", "%s: reference predicate rejects but get_fragment_metadata returned %d (want -EBADHEADER)", what, rc);
    }
    /* the same query with the fragment's own header as the output struct (the metadata sit at offset 0 of the fragment; the
     * library's stripe check reads fragments through that type): same verdict, and a refused query - or an accepted one
     * that has nothing new to say - leaves the fragment as it was */
    if (mc->nmut % 3 == 0) {
        uint8_t *g = malloc(s->flen); memcpy(g, before, s->flen);
        int ri = liberasurecode_get_fragment_metadata((char *)g, (fragment_metadata_t *)g);
        mon_count("evaluations", 1); mon_count("in_place_queries", 1);
        if (ri != rc) mon_viol("C09", "in-place-query-differs", "%s: metadata query into the fragment's own header returned %d, into a separate struct %d", what, ri, rc);
        else if (ri == 0 && ref_hdr_host_order(h) && md.chksum_mismatch == 0) g[REF_OFF_MISMATCH] = before[REF_OFF_MISMATCH];   /* the one member the query computes: the caller asked for it to be stored there */
        if (ri == rc && (ri != 0 || (ref_hdr_host_order(h) && md.chksum_mismatch == 0)) && memcmp(g, before, s->flen)) mon_viol("C09", "validation-modified-fragment", "%s: fragment bytes changed by a metadata query (rc %d) whose output struct is the fragment's own header", what, ri);
        free(g);
    }
    int hv = is_invalid_fragment_header((fragment_header_t *)f);
    mon_count("evaluations", 1);
    if ((hv == 0) != (acc != 0)) mon_viol("C09", "header-predicate-differs", "%s: is_invalid_fragment_header=%d, reference accept=%d", what, hv, acc);
    if (memcmp(f, before, s->flen)) mon_viol("C09", "validation-modified-fragment", "%s: fragment bytes changed by validation", what);
    /* consuming APIs: rejected or opposite-endian headers must give -EBADHEADER; padding-only edits behave as pristine */
    int host = ref_hdr_host_order(h);
    int padding_only = !memcmp(h, s->frag[mc->fidx], REF_OFF_PAD);
    int consume = (!acc || !host || padding_only) && (mc->nmut % 4 == 0 || padding_only || !host);
    if (consume) {
        int n = s->n;
        char *list[64]; int cnt = 0;
        int pos = (int)(mc->nmut % (long)n);
        for (int i = 0; i < n; i++) list[cnt++] = (char *)(i == mc->fidx ? f : s->frag[i]);
        /* move the mutated fragment to position pos */
        { char *t = list[mc->fidx]; list[mc->fidx] = list[pos]; list[pos] = t; }
        char *out = NULL; uint64_t ol = 0;
        int drc = liberasurecode_decode(mc->x->desc, list, cnt, s->flen, 0, &out, &ol);
        mon_count("evaluations", 1); mon_count("decodes_on_mutants", 1);
        if (!acc || !host) {
            if (drc != -EBADHEADER) mon_viol("C09", "decode-accepted-bad-header", "%s: decode returned %d for a header that is %s (want -EBADHEADER)", what, drc, !acc ? "invalid" : "in opposite byte order");
        } else if (drc != 0 || ol != s->len || (s->len && memcmp(out, s->data, s->len)))
            mon_viol("C09", "padding-edit-changed-decode", "%s: decode rc=%d after a padding-only edit", what, drc);
        if (drc == 0) liberasurecode_decode_cleanup(mc->x->desc, out);
        /* reconstruct some other fragment with the mutant among the inputs */
        int dest = (mc->fidx + 1) % n;
        cnt = 0;
        for (int i = 0; i < n; i++) if (i != dest) list[cnt++] = (char *)(i == mc->fidx ? f : s->frag[i]);
        uint8_t *of = malloc(s->flen);
        int rrc = liberasurecode_reconstruct_fragment(mc->x->desc, list, cnt, s->flen, dest, (char *)of);
        mon_count("evaluations", 1); mon_count("reconstructs_on_mutants", 1);
        if (!acc || !host) {
            if (rrc != -EBADHEADER) mon_viol("C09", "reconstruct-accepted-bad-header", "%s: reconstruct returned %d for a header that is %s (want -EBADHEADER)", what, rrc, !acc ? "invalid" : "in opposite byte order");
        } else if (rrc != 0 || memcmp(of, s->frag[dest], s->flen))
            mon_viol("C09", "padding-edit-changed-reconstruct", "%s: reconstruct rc=%d after a padding-only edit", what, rrc);
        /* the bad header is refused "before any field is used": also when the destination is itself among the supplied
         * fragments (another index, or the mutant), and when far too few fragments are supplied */
        if (!acc || !host) {
            for (int var = 0; var < 3; var++) {
                cnt = 0; int d2;
                if (var == 0) { d2 = (mc->fidx + 2) % n; for (int i = 0; i < n; i++) list[cnt++] = (char *)(i == mc->fidx ? f : s->frag[i]); }
                else if (var == 1) { d2 = mc->fidx; for (int i = 0; i < n; i++) list[cnt++] = (char *)(i == mc->fidx ? f : s->frag[i]); }
                else { d2 = (mc->fidx + 1) % n; list[cnt++] = (char *)f; if (n > 2) list[cnt++] = (char *)s->frag[(mc->fidx + 2) % n]; }
                int r3 = liberasurecode_reconstruct_fragment(mc->x->desc, list, cnt, s->flen, d2, (char *)of);
                mon_count("evaluations", 1); mon_count("reconstructs_on_mutants", 1);
                if (r3 != -EBADHEADER) { mon_viol("C09", "reconstruct-accepted-bad-header", "%s: reconstruct (%s) returned %d for a header that is %s (want -EBADHEADER)", what,
                                                  var == 0 ? "destination supplied, another index" : var == 1 ? "destination is the bad fragment itself" : "only two fragments supplied", r3, !acc ? "invalid" : "in opposite byte order"); break; }
            }
            /* the bad header anywhere in a list longer than the stripe (fragments repeated): position k+m and beyond */
            if (n <= 30) {
                for (int var = 0; var < 2; var++) {
                    char *big[72]; int bc = 0;
                    for (int i = 0; i < n; i++) if (i != mc->fidx) big[bc++] = (char *)s->frag[i];
                    if (var == 1) for (int i = 0; i < n && bc < n + 2; i++) if (i != mc->fidx) big[bc++] = (char *)s->frag[i];   /* repeats until the list is longer than the stripe */
                    else big[bc++] = (char *)s->frag[(mc->fidx + 1) % n];
                    big[bc++] = (char *)f;                                                                                  /* position >= k+m */
                    if (var == 1) big[bc++] = (char *)s->frag[(mc->fidx + 2) % n];
                    char *o3 = NULL; uint64_t l3 = 0;
                    /* (forced checks only with headers the metadata query rejects: a valid opposite-endian fragment is, under force, merely
                     *  left out like any other fragment that fails validation - C20 - and the call may succeed without it) */
                    int d4 = liberasurecode_decode(mc->x->desc, big, bc, s->flen, acc ? 0 : var, &o3, &l3);
                    mon_count("evaluations", 1); mon_count("decodes_on_mutants", 1);
                    if (d4 != -EBADHEADER) { mon_viol("C09", "decode-accepted-bad-header", "%s: decode of %d pointers with the bad header at position %d (stripe width %d) returned %d (want -EBADHEADER)", what, bc, var ? bc - 2 : bc - 1, n, d4); if (d4 == 0) liberasurecode_decode_cleanup(mc->x->desc, o3); break; }
                    int r4 = liberasurecode_reconstruct_fragment(mc->x->desc, big, bc, s->flen, mc->fidx, (char *)of);
                    mon_count("evaluations", 1); mon_count("reconstructs_on_mutants", 1);
                    if (r4 != -EBADHEADER) { mon_viol("C09", "reconstruct-accepted-bad-header", "%s: reconstruct from %d pointers with the bad header behind position k+m returned %d (want -EBADHEADER)", what, bc, r4); break; }
                }
            }
            /* decode with too few fragments */
            { char *out2 = NULL; uint64_t ol2 = 0; cnt = 0; list[cnt++] = (char *)f;
              int d3 = liberasurecode_decode(mc->x->desc, list, cnt, s->flen, 0, &out2, &ol2);
              mon_count("evaluations", 1); mon_count("decodes_on_mutants", 1);
              if (d3 == 0) { mon_viol("C09", "decode-accepted-bad-header", "%s: decode of the bad fragment alone returned 0", what); liberasurecode_decode_cleanup(mc->x->desc, out2); }
              else if (d3 != -EBADHEADER && mc->x->c.k == 1) mon_viol("C09", "decode-accepted-bad-header", "%s: decode of the bad fragment alone (k=1) returned %d (want -EBADHEADER)", what, d3); }
        }
        free(of);
        if (memcmp(f, before, s->flen)) mon_viol("C09", "consumer-modified-fragment", "%s: fragment bytes changed by decode/reconstruct", what);
    }
    free(f); free(before);
}

static void run_header(void)
{
    static cfg_t cfgs[1200];
    int nc = all_cfgs(cfgs, 1200, 0, 0);
    for (int ci = 0; ci < nc; ci++) {
        if (!MO.thorough && ci % 4 != (int)(MO.seed % 4) && ci > 6) continue;
        cfg_t c = cfgs[ci]; c.ct = (ci & 1) ? CHKSUM_CRC32 : CHKSUM_NONE;
        int lm = (ci % 3 == 0) ? 3 : 0;
        set_legacy(lm);
        uint64_t lens[2] = { (uint64_t)c.k * 4 * 3 + 1, 200 }; int kinds[2] = { DATA_RANDOM, DATA_HIGH };
        ctx_t x;
        if (ctx_open(&x, &c, lens, kinds, 2) == 0) {
            int n = cfg_n(&c);
            int nfr = MO.thorough ? (n < 6 ? n : 6) : 1;
            for (int fi = 0; fi < nfr; fi++) {
                int fidx = fi == 0 ? (ci % n) : (fi == 1 ? n - 1 : (fi == 2 ? 0 : (ci + fi * 5) % n));
                mctx_t mc = { &x, fi % x.nstr, fidx, 0 };
                const uint8_t *orig = x.st[mc.si].frag[fidx];
                uint8_t h[80]; char what[160];
                /* (a) all 640 single-bit flips */
                for (int byte = 0; byte < 80; byte += 8) {
                    if (!mon_case("%s|frag=%d|bitflips@%d..%d", x.ck, fidx, byte, byte + 7)) continue;
                    for (int b = byte; b < byte + 8; b++) for (int bit = 0; bit < 8; bit++) {
                        memcpy(h, orig, 80); h[b] ^= (uint8_t)(1u << bit);
                        snprintf(what, sizeof what, "bit flip byte %d bit %d", b, bit);
                        eval_mutant(&mc, h, what);
                        mon_distinct("nontrivial", mon_hash_u64((uint64_t)(b * 8 + bit), mon_hash_str(x.ck, (uint64_t)fidx)));
                    }
                    mon_count("bitflip_blocks", 1);
                    mon_end();
                }
                /* (b) every byte set to 3 seeded values */
                for (int byte = 0; byte < 80; byte += 8) {
                    if (!mon_case("%s|frag=%d|bytevalues@%d..%d", x.ck, fidx, byte, byte + 7)) continue;
                    rng_t r; rng_case(&r);
                    for (int b = byte; b < byte + 8; b++) for (int v = 0; v < 3; v++) {
                        memcpy(h, orig, 80); h[b] = (uint8_t)rng_u64(&r);
                        snprintf(what, sizeof what, "byte %d := 0x%02x", b, h[b]);
                        eval_mutant(&mc, h, what);
                        mon_distinct("nontrivial", mon_hash_u64((uint64_t)(b * 256 + h[b]) + 100000, mon_hash_str(x.ck, (uint64_t)fidx)));
                    }
                    mon_end();
                }
                /* (c) multi-byte edits and rewrites of version/magic/endianness, with and without re-sealing */
                int nm = MO.thorough ? 3000 : 150;
                for (int m = 0; m < nm; m += 10) {
                    if (!mon_case("%s|frag=%d|rewrites#%d", x.ck, fidx, m)) continue;
                    rng_t r; rng_case(&r);
                    for (int q = 0; q < 10; q++) {
                        memcpy(h, orig, 80);
                        int kind = (int)rng_below(&r, 9);
                        int reseal = (int)rng_below(&r, 3);          /* 0 none, 1 std, 2 legacy */
                        const char *kn = "";
                        switch (kind) {
                        case 0: kn = "multi-byte"; { int cnt = 2 + (int)rng_below(&r, 5); for (int i = 0; i < cnt; i++) h[rng_below(&r, 71)] = (uint8_t)rng_u64(&r); } break;
                        case 1: kn = "version=0"; ref_put32(h + REF_OFF_LIBVER, 0); break;
                        case 2: kn = "version<1.2.0"; ref_put32(h + REF_OFF_LIBVER, 1 + rng_below(&r, REF_VER_1_2_0 - 1)); break;
                        case 3: kn = "version=1.2.0"; ref_put32(h + REF_OFF_LIBVER, REF_VER_1_2_0 - 1 + rng_below(&r, 3)); break;
                        case 4: kn = "version-random"; ref_put32(h + REF_OFF_LIBVER, (uint32_t)rng_u64(&r)); break;
                        case 5: kn = "magic-random"; ref_put32(h + REF_OFF_MAGIC, (uint32_t)rng_u64(&r)); break;
                        case 6: kn = "opposite-endian twin"; ref_hdr_twin(orig, h, reseal == 2); if (reseal == 0) h[REF_OFF_MCRC + (int)rng_below(&r, 4)] ^= 0x10; reseal = -1; break;
                        case 7: kn = "magic-swapped-only"; ref_put32(h + REF_OFF_MAGIC, ref_bswap32(REF_MAGIC)); break;
                        case 8: kn = "swapped+old-version"; ref_hdr_twin(orig, h, 0); { uint32_t v = 1 + rng_below(&r, REF_VER_1_2_0 - 1); h[63] = v >> 24; h[64] = v >> 16; h[65] = v >> 8; h[66] = v; } h[REF_OFF_MCRC] ^= 0xff; reseal = -1; break;
                        }
                        /* stored CRC variants: also 16-bit-correct forgeries */
                        if (reseal == 1) ref_hdr_reseal(h, 0); else if (reseal == 2) ref_hdr_reseal(h, 1);
                        if (reseal > 0 && rng_below(&r, 4) == 0) { h[REF_OFF_MCRC + 2 + (int)rng_below(&r, 2)] ^= (uint8_t)(1 + rng_below(&r, 255)); kn = "half-correct-crc"; }
                        snprintf(what, sizeof what, "%s reseal=%d", kn, reseal);
                        eval_mutant(&mc, h, what);
                        mon_distinct("nontrivial", mon_hash(h, 80, mon_hash_str(x.ck, 3)));
                    }
                    mon_end();
                }
                /* (e) structured forgeries (deterministic): stored checksums that are "nearly right" in ways a sloppy comparison
                 * accepts, partially byte-swapped headers, writer versions at the edges of the 1.2.0 gate with a stale seal */
                if (mon_case("%s|frag=%d|structured-forgeries", x.ck, fidx)) {
                    uint32_t cs = crc_std(orig, 59), cl = crc_legacy(orig, 59);
                    struct { const char *n; uint32_t v; } st[] = {
                        { "stored crc byte-reversed (std), native magic", ref_bswap32(cs) }, { "stored crc byte-reversed (legacy), native magic", ref_bswap32(cl) },
                        { "stored crc = ~std", ~cs }, { "stored crc low half only", cs & 0xffffu }, { "stored crc high half only", cs & 0xffff0000u },
                        { "stored crc rotated by 8", (cs << 8) | (cs >> 24) }, { "stored crc = 0", 0 }, { "stored crc = ffffffff", 0xffffffffu },
                        { "stored crc = crc of 58 bytes", crc_std(orig, 58) }, { "stored crc = crc of 60 bytes", crc_std(orig, 60) }, { "stored crc = std ^ legacy ^ std... halves mixed", (cs & 0xffffu) | (cl & 0xffff0000u) },
                    };
                    for (size_t q = 0; q < sizeof st / sizeof st[0]; q++) { memcpy(h, orig, 80); ref_put32(h + REF_OFF_MCRC, st[q].v); eval_mutant(&mc, h, st[q].n); mon_distinct("nontrivial", mon_hash(h, 80, mon_hash_str(x.ck, 4))); }
                    /* opposite-endian header whose checksum word alone is in HOST order, and the reverse */
                    { ref_hdr_twin(orig, h, 0); uint32_t ct = crc_std(h, 59); ref_put32(h + REF_OFF_MCRC, ct); eval_mutant(&mc, h, "opposite-endian header, checksum word left in host order");
                      memcpy(h, orig, 80); ref_put32(h + REF_OFF_MAGIC, ref_bswap32(REF_MAGIC)); ref_put32(h + REF_OFF_LIBVER, ref_bswap32(ref_get32(orig + REF_OFF_LIBVER)));
                      ref_put32(h + REF_OFF_MCRC, crc_std(h, 59)); eval_mutant(&mc, h, "magic and version byte-swapped, checksum in host order, other fields native"); }
                    static const uint32_t gate[] = { 0x010200, 0x0101ff, 0x010201, 0x80010604u, 0xffffffffu, 0x80000000u, 0x7fffffffu, 0x01020000, 0x00010200 };
                    for (size_t q = 0; q < sizeof gate / sizeof gate[0]; q++) for (int stale = 0; stale < 2; stale++) {
                        memcpy(h, orig, 80); ref_put32(h + REF_OFF_LIBVER, gate[q]); ref_hdr_reseal(h, 0); if (stale) h[REF_OFF_MCRC + (q & 3)] ^= 0x41;
                        snprintf(what, sizeof what, "writer version %08x, %s seal", gate[q], stale ? "stale" : "good"); eval_mutant(&mc, h, what);
                    }
                    mon_count("structured_forgery_blocks", 1);
                    mon_end();
                }
                /* (f) a header that is valid by the equation but that decode/reconstruct refuse late (logical size >= 2^31, re-sealed),
                 * met after an earlier data fragment had to be replaced (missing) or copied (misaligned): the refused call leaves
                 * every fragment the caller handed in, and the rest of the stripe, byte for byte as encode wrote it and still valid */
                if (fi == 0 && c.k >= 2 && mon_case("%s|late-refusal-leaves-fragments", x.ck)) {
                    stripe_t *s = &x.st[mc.si]; int n2 = s->n;
                    uint64_t dg[64]; for (int i = 0; i < n2; i++) dg[i] = mon_hash(s->frag[i], s->flen, 77);
                    uint8_t *fg = NULL; if (posix_memalign((void **)&fg, 16, s->flen)) fg = NULL;
                    uint8_t *mis = malloc(s->flen + 32);
                    for (int var = 0; var < 6 && fg && mis; var++) {
                        int j = var % 2 ? 1 : (c.k > 2 ? 2 : 1);         /* the forged data fragment */
                        memcpy(fg, s->frag[j], s->flen); ref_put64(fg + REF_OFF_ORIG, 0x80000000ull + (uint64_t)var * 0x7fffffffull); ref_hdr_reseal(fg, lm >= 3);
                        char *list[64]; int cnt = 0;
                        for (int i = 0; i < n2; i++) {
                            if (i == 0 && var < 4) { if (var < 2) continue; memcpy(mis + 1 + var, s->frag[0], s->flen); list[cnt++] = (char *)mis + 1 + var; continue; }
                            if (i == 1 && j == 2 && var >= 2) continue;
                            list[cnt++] = (char *)(i == j ? fg : s->frag[i]);
                        }
                        int rc;
                        if (var != 3 && var != 5) { char *out = NULL; uint64_t ol = 0; rc = liberasurecode_decode(x.desc, list, cnt, s->flen, var == 4, &out, &ol); if (rc == 0) liberasurecode_decode_cleanup(x.desc, out); }
                        else { uint8_t *of = malloc(s->flen); rc = liberasurecode_reconstruct_fragment(x.desc, list, cnt, s->flen, var == 3 ? n2 - 1 : 0, (char *)of); free(of); }
                        mon_count("evaluations", 1); mon_count("late_refusals", 1);
                        /* (reconstruction does not need the logical size: its result is not judged here) */
                        if (rc == 0 && var != 3 && var != 5) mon_viol("C09", "oversized-logical-size-accepted", "variant %d: decode returned 0 although the first data fragment it reads claims a logical size >= 2^31", var);
                        for (int i = 0; i < n2; i++) {
                            fragment_metadata_t md; int mr = liberasurecode_get_fragment_metadata(s->frag[i], &md);
                            if (mon_hash(s->frag[i], s->flen, 77) != dg[i] || mr != 0) { mon_viol("C09", "refused-call-damaged-fragment", "variant %d (rc %d): fragment %d of the stripe is no longer what encode wrote (query rc %d)", var, rc, i, mr); break; }
                        }
                    }
                    free(fg); free(mis);
                    mon_end();
                }
                /* (g) a list in which some headers are sealed with the standard CRC and others with the historical one (a stripe
                 * partly rebuilt by another release or under the other setting of the switch): every header satisfies the
                 * acceptance equation on its own, so decode and reconstruct accept the list and give the exact bytes, whatever
                 * the order of the two kinds */
                if (fi == 0 && cfg_tol(&c) >= 1 && c.be != EC_BACKEND_NULL && mon_case("%s|mixed-seal-kinds-in-one-list", x.ck)) {
                    stripe_t *s = &x.st[mc.si]; int n2 = s->n;
                    uint8_t *cp[64]; for (int i = 0; i < n2; i++) { cp[i] = malloc(s->flen); }
                    for (int var = 0; var < 4; var++) {
                        for (int i = 0; i < n2; i++) { memcpy(cp[i], s->frag[i], s->flen); int leg = var == 0 ? (i == 1) : var == 1 ? (i != 1) : var == 2 ? (i & 1) : (i >= n2 / 2); ref_hdr_reseal(cp[i], leg); }
                        char *list[64]; int cnt = 0; for (int i = 1; i < n2; i++) list[cnt++] = (char *)cp[(var & 1) ? n2 - i : i];     /* fragment 0 is lost */
                        int acc_all = 1; for (int i = 1; i < n2; i++) if (!ref_hdr_accept(cp[i])) acc_all = 0;
                        char *out = NULL; uint64_t ol = 0; int rc = liberasurecode_decode(x.desc, list, cnt, s->flen, var == 2, &out, &ol);
                        mon_count("evaluations", 2); mon_count("mixed_seal_lists", 1);
                        if (acc_all && (rc != 0 || ol != s->len || (s->len && memcmp(out, s->data, s->len)))) mon_viol("C09", "valid-header-rejected", "variant %d: decode of a list whose headers carry both kinds of metadata checksum returned %d%s", var, rc, rc ? "" : " with wrong bytes");
                        if (rc == 0) liberasurecode_decode_cleanup(x.desc, out);
                        uint8_t *of = malloc(s->flen); rc = liberasurecode_reconstruct_fragment(x.desc, list, cnt, s->flen, 0, (char *)of);
                        if (acc_all && (rc != 0 || memcmp(of + 80, s->frag[0] + 80, s->flen - 80))) mon_viol("C09", "valid-header-rejected", "variant %d: reconstruct from a list whose headers carry both kinds of metadata checksum returned %d%s", var, rc, rc ? "" : " with a wrong payload");
                        free(of);
                    }
                    for (int i = 0; i < n2; i++) free(cp[i]);
                    mon_end();
                }
                /* (d) padding-only edits */
                if (mon_case("%s|frag=%d|padding-edits", x.ck, fidx)) {
                    rng_t r; rng_case(&r);
                    for (int q = 0; q < 9; q++) { memcpy(h, orig, 80); h[71 + q] = (uint8_t)(1 + rng_below(&r, 255)); snprintf(what, sizeof what, "padding byte %d", 71 + q); eval_mutant(&mc, h, what); }
                    mon_end();
                }
                if (fi == 0 && ci % 9 == 0) mon_sample("{\"config\":\"%s\",\"fragment\":%d,\"legacy_written\":%d,\"mutations\":\"640 bit flips, 240 byte values, %d rewrites, 9 padding edits\"}", x.ck, fidx, lm >= 3, nm);
            }
        }
        ctx_close(&x);
    }
    set_legacy(0);
}

/* ================================================================ C10 */
static int mismatch_ref(const uint8_t *frag, uint64_t P)
{
    uint32_t stored = ref_get32(frag + REF_OFF_CHKSUM);
    return crc_std(frag + 80, P) != stored && crc_legacy(frag + 80, P) != stored;
}

/* an instance of the same shape created with ANOTHER checksum type (a reader that never writes): what it says about a
 * fragment is a matter of the fragment's own header, not of the reader's settings */
static int rd_desc = -1; static cfg_t rd_c;
static int reader_for(const cfg_t *c)
{
    if (rd_desc > 0 && !memcmp(&rd_c, c, sizeof rd_c)) return rd_desc;
    if (rd_desc > 0) liberasurecode_instance_destroy(rd_desc);
    rd_c = *c; cfg_t c2 = *c; c2.ct = c->ct == CHKSUM_CRC32 ? CHKSUM_NONE : CHKSUM_CRC32;
    rd_desc = lec_create(&c2);
    return rd_desc;
}
static void reader_release(void) { if (rd_desc > 0) liberasurecode_instance_destroy(rd_desc); rd_desc = -1; memset(&rd_c, 0, sizeof rd_c); }

static void check_mismatch(ctx_t *x, const uint8_t *frag, uint64_t flen, const char *what, int expect_valid_known, int expect_valid)
{
    uint64_t P = ctx_payload_size(x, flen);      /* the checksum covers the payload, not the backend's trailer */
    uint8_t *f = malloc(flen); memcpy(f, frag, flen);
    fragment_metadata_t md;
    int rc = liberasurecode_get_fragment_metadata((char *)f, &md);
    int want = mismatch_ref(f, P);
    mon_count("evaluations", 1); mon_count("mismatch_queries", 1);
    if (rc != 0) mon_viol("C10", "metadata-query-failed", "%s: rc=%d", what, rc);
    else if ((md.chksum_mismatch != 0) != want) mon_viol("C10", want ? "mismatch-not-reported" : "false-mismatch", "%s: chksum_mismatch=%d, reference %d", what, md.chksum_mismatch, want);
    int inv = is_invalid_fragment(x->desc, (char *)f);
    mon_count("evaluations", 1);
    if (want && !inv) mon_viol("C10", "mismatching-fragment-validated", "%s: is_invalid_fragment returned 0 for a fragment whose payload checksum mismatches", what);
    if (!want && expect_valid_known && expect_valid && inv) mon_viol("C10", "intact-fragment-rejected", "%s: is_invalid_fragment rejects an intact fragment", what);
    mon_count(want ? "mismatching_cases" : "matching_cases", 1);
    { int rdd = reader_for(&x->c);
      if (rdd > 0) { int invr = is_invalid_fragment(rdd, (char *)f); mon_count("evaluations", 1); mon_count("validations_through_a_reader_of_another_checksum_type", 1);
                     if ((invr != 0) != (inv != 0)) mon_viol("C10", want ? "mismatching-fragment-validated" : "verdict-depends-on-reader", "%s: is_invalid_fragment says %d through the writing instance and %d through an instance of the same shape created with another checksum type (payload checksum %s)", what, inv, invr, want ? "mismatches" : "matches");
                     char *one[1] = { (char *)&md }; int vs = rc == 0 ? liberasurecode_verify_stripe_metadata(rdd, one, 1) : -1;      /* the stripe check reads metadata as the query returned them */
                     if (want && vs == 0) mon_viol("C10", "mismatching-fragment-validated", "%s: verify_stripe_metadata through an instance created with another checksum type passes a fragment whose payload checksum mismatches", what); } }
    /* the same bytes as an older release stamped them (the writer version lies outside the header checksum; releases before
     * 1.2.0 had no header seal but always wrote the payload checksum): the payload verdict does not depend on the stamp */
    static long nth;
    if (rc == 0 && nth++ % 3 == 0) {
        static const uint32_t ov[] = { 0x010100, 0x010009, 0x0101ff, 0x010200, 0x010201, 0x010500, 0x000905 };
        uint32_t V = ov[(nth / 3) % 7];
        ref_put32(f + REF_OFF_LIBVER, V);
        if (!ref_hdr_accept(f)) { free(f); return; }       /* (a header that was edited without a seal is only acceptable under its pre-1.2.0 stamp) */
        fragment_metadata_t m2; memset(&m2, 0x33, sizeof m2);
        int r2 = liberasurecode_get_fragment_metadata((char *)f, &m2);
        mon_count("evaluations", 1); mon_count("mismatch_queries_with_older_writer_stamp", 1);
        if (r2 != 0) mon_viol("C10", "metadata-query-failed", "%s, stamped by writer version 0x%06x: rc=%d", what, V, r2);
        else if ((m2.chksum_mismatch != 0) != want) mon_viol("C10", want ? "mismatch-not-reported" : "false-mismatch", "%s, stamped by writer version 0x%06x: chksum_mismatch=%d, reference %d", what, V, m2.chksum_mismatch, want);
        int inv2 = is_invalid_fragment(x->desc, (char *)f);
        if (want && !inv2) mon_viol("C10", "mismatching-fragment-validated", "%s, stamped by writer version 0x%06x: is_invalid_fragment returned 0 although the payload checksum mismatches", what, V);
        if (!want && expect_valid_known && expect_valid && inv2) mon_viol("C10", "intact-fragment-rejected", "%s, stamped by writer version 0x%06x: is_invalid_fragment rejects an intact fragment", what, V);
    }
    free(f);
}

/* the stripe-level validation call over the metadata the query returned (not over raw fragments): clean metadata passes; a
 * payload mismatch recorded in ANY entry is reported, wherever it stands in the list; the structs were not empty before */
static void check_stripe_blobs(const char *prop, ctx_t *x, stripe_t *s)
{
    int n = s->n;
    fragment_metadata_t md[32]; char *ptr[32];
    memset(md, 0x01, sizeof md);                                  /* every byte 1: a stale "mismatch" left by an earlier answer */
    for (int i = 0; i < n; i++) {
        int rc = liberasurecode_get_fragment_metadata((char *)s->frag[i], &md[i]); ptr[i] = (char *)&md[i];
        if (rc != 0 || md[i].chksum_mismatch != 0) { mon_viol(prop, "clean-fragment-reported-bad", "metadata query on fragment %d as encode wrote it (checksum type %d), into a struct that held 01 bytes: rc=%d chksum_mismatch=%d", i, s->frag[i][REF_OFF_CT], rc, md[i].chksum_mismatch); return; }
    }
    int vr = liberasurecode_verify_stripe_metadata(x->desc, ptr, n);
    mon_count("evaluations", 1); mon_count("stripe_checks_over_returned_metadata", 1);
    if (vr != 0) { mon_viol(prop, "clean-stripe-rejected", "verify_stripe_metadata over the metadata of a freshly encoded stripe returned %d", vr); return; }
    if (s->frag[0][REF_OFF_CT] != REF_CT_CRC32 || s->flen <= 80) return;
    uint8_t *d = malloc(s->flen);
    for (int p = 0; p < n; p += (n > 8 ? 3 : 1)) {
        memcpy(d, s->frag[p], s->flen); d[80 + (uint64_t)(p * 13) % ctx_payload_size(x, s->flen)] ^= 0x10;
        fragment_metadata_t keep = md[p];
        int rc = liberasurecode_get_fragment_metadata((char *)d, &md[p]);
        vr = liberasurecode_verify_stripe_metadata(x->desc, ptr, n);
        mon_count("evaluations", 1); mon_count("stripe_checks_over_returned_metadata", 1);
        if (rc != 0 || !md[p].chksum_mismatch) mon_viol(prop, "mismatch-not-reported", "payload damage in fragment %d not reported by the metadata query (rc %d)", p, rc);
        else if (vr >= 0) { mon_viol(prop, "stripe-with-mismatch-accepted", "verify_stripe_metadata returned %d although entry %d of %d records a payload checksum mismatch", vr, p, n); md[p] = keep; break; }
        md[p] = keep;
    }
    free(d);
}

static void run_checksum(void)
{
    /* legacy CRC function vs bitwise model on random buffers */
    int nbuf = MO.thorough ? 100000 : 12000;
    for (int b = 0; b < nbuf; b += 500) {
        if (!mon_case("crc32_alt|buffers#%d", b)) continue;
        rng_t r; rng_case(&r);
        uint8_t *buf = malloc(4096);
        for (int q = 0; q < 500; q++) {
            size_t len = q < 8 ? (size_t)q : rng_below(&r, 4097);
            rng_fill(&r, buf, len);
            if (q % 3 == 0) for (size_t i = 0; i < len; i++) buf[i] |= 0x80;
            uint32_t got = (uint32_t)liberasurecode_crc32_alt(0, buf, len);
            mon_count("evaluations", 1); mon_count("legacy_crc_buffers", 1);
            if (got != crc_legacy(buf, len)) { mon_viol("C10", "legacy-crc-differs", "liberasurecode_crc32_alt over %zu bytes = %08x, historical model %08x", len, got, crc_legacy(buf, len)); break; }
        }
        mon_distinct("nontrivial", mon_hash_u64((uint64_t)b, 51));
        free(buf);
        mon_end();
    }
    static cfg_t cfgs[1200];
    int nc = all_cfgs(cfgs, 1200, 0, 0);
    for (int ci = 0; ci < nc; ci++) {
        if (!MO.thorough && ci % 3 != (int)(MO.seed % 3) && ci > 8) continue;
        for (int lm = 0; lm < 5; lm++) {
            if (!MO.thorough && lm != (ci % 5) && lm != 3 && lm != 0) continue;
            cfg_t c = cfgs[ci]; c.ct = CHKSUM_CRC32;
            set_legacy(lm);
            uint64_t lens[3] = { (uint64_t)c.k * 4 * 5, (uint64_t)c.k * 4 * 64 - 3, 9 + (uint64_t)c.k * 256 * 4 }; int kinds[3] = { DATA_RANDOM, DATA_CRC0, DATA_RANDOM };
            ctx_t x;
            char suffix[32]; snprintf(suffix, sizeof suffix, ",legacy=%s", legacy_name[lm]);
            if (ctx_open(&x, &c, lens, kinds, 3) == 0) {
                strncat(x.ck, suffix, sizeof x.ck - strlen(x.ck) - 1);
                int n = cfg_n(&c);
                for (int si = 0; si < x.nstr; si++) {
                    stripe_t *s = &x.st[si]; uint64_t P = ref_payload_size(c.be, c.k, s->len);
                    if (mon_case("%s|len=%llu|stripe-check-over-returned-metadata", x.ck, (unsigned long long)s->len)) { check_stripe_blobs("C10", &x, s); mon_distinct("nontrivial", mon_hash_u64(s->len, mon_hash_str(x.ck, 1010))); mon_end(); }
                    /* stored checksum of every encoded fragment == model CRC (variant per switch) */
                    if (mon_case("%s|len=%llu|stored-checksums", x.ck, (unsigned long long)s->len)) {
                        for (int f = 0; f < n; f++) {
                            uint32_t stored = ref_get32(s->frag[f] + REF_OFF_CHKSUM);
                            uint32_t want = LEC_MODEL_LEGACY ? crc_legacy(s->frag[f] + 80, P) : crc_std(s->frag[f] + 80, P);
                            mon_count("evaluations", 1); mon_count("stored_checksums_compared", 1);
                            if (stored != want) mon_viol("C10", "stored-checksum-wrong", "fragment %d stores %08x, %s CRC-32 of its payload is %08x", f, stored, LEC_MODEL_LEGACY ? "historical" : "standard", want);
                            for (int w = 1; w < 8; w++) if (ref_get32(s->frag[f] + REF_OFF_CHKSUM + 4 * w)) { mon_viol("C10", "checksum-tail-nonzero", "chksum[%d] non-zero", w); break; }
                        }
                        mon_end();
                    }
                    /* reconstructed fragments carry the right checksum: reconstruct with the switch in every state */
                    if (mon_case("%s|len=%llu|reconstructed-checksums", x.ck, (unsigned long long)s->len)) {
                        for (int d = 0; d < n; d += (n > 8 ? 3 : 1)) {
                            if (c.be == EC_BACKEND_ISA_L_RS_VAND) { uint32_t pres = ((n == 32 ? 0xffffffffu : (1u << n) - 1)) & ~(1u << d); if (!code_firstk_invertible(&x.cd, pres)) continue; }
                            char *list[64]; int cnt = 0;
                            for (int i = 0; i < n; i++) if (i != d) list[cnt++] = (char *)s->frag[i];
                            uint8_t *of = malloc(s->flen);
                            int rc = liberasurecode_reconstruct_fragment(x.desc, list, cnt, s->flen, d, (char *)of);
                            mon_count("evaluations", 1); mon_count("reconstructed_checksums_compared", 1);
                            if (rc != 0) mon_viol("C10", "reconstruct-failed", "reconstruct(%d) rc=%d", d, rc);
                            else {
                                uint32_t stored = ref_get32(of + REF_OFF_CHKSUM);
                                uint32_t want = LEC_MODEL_LEGACY ? crc_legacy(of + 80, P) : crc_std(of + 80, P);
                                if (stored != want) mon_viol("C10", "reconstructed-checksum-wrong", "reconstructed fragment %d stores %08x, want %08x", d, stored, want);
                                if (of[REF_OFF_CT] != CHKSUM_CRC32) mon_viol("C10", "reconstructed-checksum-type", "checksum type %d", of[REF_OFF_CT]);
                            }
                            free(of);
                        }
                        mon_end();
                    }
                    /* legacy-written fragments verify on a reader with the switch off (and vice versa) */
                    if (mon_case("%s|len=%llu|cross-switch-validation", x.ck, (unsigned long long)s->len)) {
                        int save = lm;
                        for (int rm = 0; rm < 5; rm += 3) {
                            set_legacy(rm);
                            for (int f = 0; f < n; f += (n > 8 ? 5 : 1)) {
                                char w[64]; snprintf(w, sizeof w, "pristine fragment %d read with switch=%s", f, legacy_name[rm]);
                                check_mismatch(&x, s->frag[f], s->flen, w, 1, 1);
                            }
                        }
                        set_legacy(save);
                        mon_end();
                    }
                    /* payload corruption: every single-bit flip for short payloads, bursts otherwise */
                    int f0 = (si + ci) % n;
                    uint8_t *f = malloc(s->flen);
                    /* a mismatch flag already stored in an acceptable header says nothing: the query reports a mismatch
                     * exactly when the payload's CRC differs, so an intact payload must come back with mismatch = 0 */
                    if (mon_case("%s|len=%llu|frag=%d|stored-mismatch-flag", x.ck, (unsigned long long)s->len, f0)) {
                        static const uint8_t flagv[] = { 1, 0xff, 0x80, 2 };
                        for (int q = 0; q < 12; q++) {
                            memcpy(f, s->frag[(f0 + q) % n], s->flen);
                            f[REF_OFF_MISMATCH] = flagv[q % 4];
                            char w[96];
                            if (q % 3 == 0) { ref_hdr_reseal(f, 0); snprintf(w, sizeof w, "stored mismatch flag %02x, re-sealed (standard CRC), payload intact", flagv[q % 4]); }
                            else if (q % 3 == 1) { ref_hdr_reseal(f, 1); snprintf(w, sizeof w, "stored mismatch flag %02x, re-sealed (historical CRC), payload intact", flagv[q % 4]); }
                            else { ref_put32(f + REF_OFF_LIBVER, 0x010100 + (uint32_t)q); snprintf(w, sizeof w, "stored mismatch flag %02x in a pre-1.2.0 header (no metadata CRC), payload intact", flagv[q % 4]); }
                            check_mismatch(&x, f, s->flen, w, 1, 1);
                            mon_count("stored_flag_cases", 1);
                            mon_distinct("nontrivial", mon_hash(f, 80, 53));
                        }
                        mon_end();
                    }
                    if (P <= (MO.thorough ? 1024u : 256u)) {
                        for (uint64_t base = 0; base < P; base += 16) {
                            if (!mon_case("%s|len=%llu|frag=%d|payload-bitflips@%llu", x.ck, (unsigned long long)s->len, f0, (unsigned long long)base)) continue;
                            for (uint64_t b = base; b < base + 16 && b < P; b++) for (int bit = 0; bit < 8; bit++) {
                                memcpy(f, s->frag[f0], s->flen); f[80 + b] ^= (uint8_t)(1u << bit);
                                char w[64]; snprintf(w, sizeof w, "payload byte %llu bit %d flipped", (unsigned long long)b, bit);
                                check_mismatch(&x, f, s->flen, w, 0, 0);
                                mon_distinct("nontrivial", mon_hash_u64(b * 8 + (uint64_t)bit, mon_hash_str(x.ck, P)));
                            }
                            mon_end();
                        }
                    }
                    /* the same fragments as an opposite-endian host would have written them: mismatch reported exactly when the
                     * payload is damaged (the checksum is taken over the byte-swapped size, compared with the byte-swapped word) */
                    if (mon_case("%s|len=%llu|frag=%d|opposite-endian-checksums", x.ck, (unsigned long long)s->len, f0)) {
                        rng_t r; rng_case(&r);
                        for (int q = 0; q < 8; q++) {
                            int fi = (f0 + q) % n;
                            memcpy(f, s->frag[fi], s->flen);
                            uint8_t tw[80]; int lg = ref_get32(f + REF_OFF_MCRC) == crc_legacy(f, 59) && ref_get32(f + REF_OFF_MCRC) != crc_std(f, 59);
                            ref_hdr_twin(f, tw, lg); memcpy(f, tw, 80);
                            int damaged = q & 1;
                            if (damaged && P) f[80 + rng_below(&r, (uint32_t)P)] ^= (uint8_t)(1u << rng_below(&r, 8));
                            fragment_metadata_t md; int rc = liberasurecode_get_fragment_metadata((char *)f, &md);
                            mon_count("evaluations", 1); mon_count("twin_checksum_queries", 1);
                            if (rc != 0) mon_viol("C10", "metadata-query-failed", "opposite-endian copy of fragment %d: rc=%d", fi, rc);
                            else if ((md.chksum_mismatch != 0) != (damaged && P)) mon_viol("C10", damaged ? "mismatch-not-reported" : "false-mismatch", "opposite-endian copy of fragment %d (%s payload): chksum_mismatch=%d", fi, damaged ? "damaged" : "intact", md.chksum_mismatch);
                            mon_distinct("nontrivial", mon_hash(f, 80, 54 + (uint64_t)damaged));
                        }
                        mon_end();
                    }
                    int nb = MO.thorough ? 1500 : 30;
                    if (mon_case("%s|len=%llu|frag=%d|payload-bursts", x.ck, (unsigned long long)s->len, f0)) {
                        rng_t r; rng_case(&r);
                        for (int q = 0; q < nb && P > 0; q++) {
                            memcpy(f, s->frag[f0], s->flen);
                            int kind = q % 4; char w[96];
                            if (kind == 0) { uint64_t o = rng_below(&r, (uint32_t)P); f[80 + o] = (uint8_t)rng_u64(&r); snprintf(w, sizeof w, "byte edit @%llu", (unsigned long long)o); }
                            else if (kind == 1) { uint64_t o = rng_below(&r, (uint32_t)P); uint64_t l = 1 + rng_below(&r, 16); for (uint64_t i = o; i < o + l && i < P; i++) f[80 + i] ^= (uint8_t)rng_u64(&r); snprintf(w, sizeof w, "burst @%llu+%llu", (unsigned long long)o, (unsigned long long)l); }
                            else if (kind == 2) { /* forged stored value = the other CRC variant of the (corrupted) payload */
                                uint64_t o = rng_below(&r, (uint32_t)P); f[80 + o] ^= 0x80;
                                ref_put32(f + REF_OFF_CHKSUM, (q & 4) ? crc_legacy(f + 80, P) : crc_std(f + 80, P)); ref_hdr_reseal(f, 0);
                                snprintf(w, sizeof w, "corrupt+stored:=%s crc (re-sealed)", (q & 4) ? "legacy" : "std"); }
                            else { ref_put32(f + REF_OFF_CHKSUM, ref_get32(f + REF_OFF_CHKSUM) ^ (1u << rng_below(&r, 32))); ref_hdr_reseal(f, 0); snprintf(w, sizeof w, "stored checksum bit flipped (re-sealed)"); }
                            check_mismatch(&x, f, s->flen, w, 0, 0);
                            mon_distinct("nontrivial", mon_hash(f, s->flen, 52));
                        }
                        mon_end();
                    }
                    free(f);
                }
                if (ci % 17 == 0) mon_sample("{\"config\":\"%s\",\"payload_sizes\":[%llu,%llu,%llu],\"corruptions\":\"all single-bit flips for payload<=256B, bursts/byte edits/forged stored values otherwise\"}", x.ck, (unsigned long long)(x.st[0].flen - 80), x.nstr > 1 ? (unsigned long long)(x.st[1].flen - 80) : 0ull, x.nstr > 2 ? (unsigned long long)(x.st[2].flen - 80) : 0ull);
            }
            ctx_close(&x);
        }
    }
    set_legacy(0);
    reader_release();
    /* instances with different checksum types (and twins) come and go in every order; each live one is used after every
     * step: fragments equal the model (checksum type and value included) and payload damage is flagged */
    { noise_stop();
      static const cfg_t p[] = { { EC_BACKEND_LIBERASURECODE_RS_VAND, 4, 2, 2, 0, CHKSUM_CRC32 }, { EC_BACKEND_LIBERASURECODE_RS_VAND, 4, 2, 2, 0, CHKSUM_NONE }, { EC_BACKEND_FLAT_XOR_HD, 10, 5, 3, 0, CHKSUM_CRC32 }, { EC_BACKEND_FLAT_XOR_HD, 5, 5, 3, 0, CHKSUM_NONE } };
      lec_population(p, 4, "mixed-checksum-types", MO.thorough ? 6 : 5, MO.thorough ? 300 : 24, MO.thorough ? 48 : 28); }
}

/* ================================================================ C11 */
static void cmp_md(const char *what, int rc_n, const fragment_metadata_t *a, int rc_t, const fragment_metadata_t *b)
{
    if (rc_n != rc_t) { mon_viol("C11", "rc-differs", "%s: native rc=%d, twin rc=%d", what, rc_n, rc_t); return; }
    if (rc_n != 0) return;
#define F(fld, fmt) if (a->fld != b->fld) mon_viol("C11", "field-differs-" #fld, "%s: " #fld " native " fmt " twin " fmt, what, a->fld, b->fld)
    F(idx, "%u"); F(size, "%u"); F(frag_backend_metadata_size, "%u"); F(orig_data_size, "%lu"); F(chksum_type, "%u");
    F(chksum_mismatch, "%u"); F(backend_id, "%u"); F(backend_version, "%u");
#undef F
    for (int i = 0; i < 8; i++) if (a->chksum[i] != b->chksum[i]) { mon_viol("C11", "field-differs-chksum", "%s: chksum[%d] native %08x twin %08x", what, i, a->chksum[i], b->chksum[i]); break; }
}

static void run_endian(void)
{
    static cfg_t cfgs[1200];
    int nc = all_cfgs(cfgs, 1200, MO.thorough, 1);
    for (int ci = 0; ci < nc; ci++) {
        for (int ct = CHKSUM_NONE; ct <= CHKSUM_MD5; ct++) {
            if (!MO.thorough && ct == CHKSUM_NONE && ci % 2) continue;
            if (!MO.thorough && ct == CHKSUM_MD5 && ci % 4 != 2) continue;
            cfg_t c = cfgs[ci]; c.ct = ct;
            int lm = (ci % 4 == 1) ? 3 : 0;
            set_legacy(lm);
            uint64_t lens[2] = { (uint64_t)c.k * 4 * 7 + 3, 1000 + (uint64_t)ci }; int kinds[2] = { DATA_RANDOM, DATA_HIGH };
            ctx_t x;
            if (ctx_open(&x, &c, lens, kinds, 2) == 0) {
                int n = cfg_n(&c);
                for (int si = 0; si < x.nstr; si++) {
                    stripe_t *s = &x.st[si]; uint64_t P = ref_payload_size(c.be, c.k, s->len);
                    for (int f = 0; f < n; f += (n > 10 && !MO.thorough ? 3 : 1)) {
                        if (!mon_case("%s|legacy=%d|len=%llu|frag=%d|twin", x.ck, lm >= 3, (unsigned long long)s->len, f)) continue;
                        rng_t r; rng_case(&r);
                        uint8_t *nat = malloc(s->flen), *tw = malloc(s->flen);
                        for (int v = 0; v < 10; v++) {
                            memcpy(nat, s->frag[f], s->flen);
                            const char *vn = "pristine";
                            if (v == 6 || v == 7) {   /* 64-bit original length with high bits / bit 31 / bit 63 set (the query only reports it) */
                                static const uint64_t ov[] = { 0x80000000ull, 0xc0000000ull, 0xfffff000ull, 0x1c0000000ull, 0x123456789abcdef0ull, 0xffffffffffffffffull, 0x8000000000000000ull, 0x7fffffffull, 0x100000000ull, 0x00ff00ff00ff00ffull };
                                uint64_t o = v == 6 ? ov[(f + si + ci) % 10] : rng_u64(&r);
                                ref_put64(nat + REF_OFF_ORIG, o); ref_hdr_reseal(nat, lm >= 3 && (f & 1)); vn = "orig_data_size edited (64-bit edge value), re-sealed";
                            }
                            if (v == 8) {   /* payload size / backend metadata size: only where the query does not checksum the payload */
                                if (ct == CHKSUM_CRC32) continue;
                                ref_put32(nat + REF_OFF_SIZE, (uint32_t)rng_u64(&r) | ((f & 1) ? 0x80000000u : 0)); ref_put32(nat + REF_OFF_BMS, (uint32_t)rng_u64(&r) | ((f & 2) ? 0x80000000u : 0));
                                ref_hdr_reseal(nat, 0); vn = "size and backend-metadata size edited, re-sealed";
                            }
                            if (v == 9) {   /* a writer older than 1.2.0 (no seal) and sizes at and above 2^27 / 2^30 / 2^31, the object spanning 1..k such fragments */
                                if (ct == CHKSUM_CRC32) continue;
                                static const uint32_t szv[] = { 1u << 27, (1u << 27) + 4096, 0x09000000u, 1u << 30, 0xC0000000u, 0x0A000000u, 0xffffffffu, (1u << 27) - 16 };
                                static const uint32_t vers[] = { 0x010000, 0x010001, 0x010100, 0x010109, 0x000903, 0x0101ff };
                                uint32_t sz = szv[(f + si + ci) % 8];
                                ref_put32(nat + REF_OFF_SIZE, sz); ref_put32(nat + REF_OFF_BMS, 0); ref_put64(nat + REF_OFF_ORIG, (uint64_t)sz * (1 + rng_below(&r, (uint32_t)c.k)) - rng_below(&r, 1000));
                                ref_put32(nat + REF_OFF_LIBVER, vers[(f + ci) % 6]); vn = "writer older than 1.2.0, size at or above 2^27 (edited)";
                            }
                            if (v == 1 && P) { nat[80 + rng_below(&r, (uint32_t)P)] ^= (uint8_t)(1u << rng_below(&r, 8)); vn = "payload bit flipped"; }
                            if (v == 2) { ref_put32(nat + REF_OFF_IDX, (uint32_t)rng_u64(&r)); ref_hdr_reseal(nat, lm >= 3); vn = "idx edited, re-sealed"; }
                            if (v == 3) { ref_put32(nat + REF_OFF_BEVER, (uint32_t)rng_u64(&r)); nat[REF_OFF_BEID] = (uint8_t)rng_u64(&r); ref_hdr_reseal(nat, 0); vn = "backend id/version edited, re-sealed"; }
                            if (v == 4) { nat[rng_below(&r, 59)] ^= 0x04; vn = "metadata bit flipped, not re-sealed"; }
                            if (v == 5) { ref_put32(nat + REF_OFF_CHKSUM, (uint32_t)rng_u64(&r)); for (int w = 1; w < 8; w++) ref_put32(nat + REF_OFF_CHKSUM + 4 * w, (uint32_t)rng_u64(&r)); ref_hdr_reseal(nat, 0); vn = "all checksum words edited, re-sealed"; }
                            int variant_legacy = ref_get32(nat + REF_OFF_MCRC) == crc_legacy(nat, 59) && ref_get32(nat + REF_OFF_MCRC) != crc_std(nat, 59);
                            memcpy(tw, nat, s->flen);
                            ref_hdr_twin(nat, tw, variant_legacy);
                            if (v == 4) { /* keep the twin's seal as stale as the native one */ tw[REF_OFF_MCRC] ^= 0x5a; }
                            fragment_metadata_t ma, mb; memset(&ma, 0xA5, sizeof ma); memset(&mb, 0x5A, sizeof mb);   /* stale caller structs: every member must be assigned by the query */
                            uint64_t dnat = mon_hash(nat, s->flen, 5), dtw = mon_hash(tw, s->flen, 5);
                            int ra = liberasurecode_get_fragment_metadata((char *)nat, &ma);
                            int rb = liberasurecode_get_fragment_metadata((char *)tw, &mb);
                            mon_count("evaluations", 1); mon_count("twin_pairs", 1);
                            if (v == 4) { /* both must be rejected */ if (!ref_hdr_accept(nat) && (ra != -EBADHEADER || rb != -EBADHEADER)) mon_viol("C11", "verdict-differs", "%s: native rc=%d twin rc=%d for a stale seal", vn, ra, rb); }
                            else cmp_md(vn, ra, &ma, rb, &mb);
                            if (ra == 0) {   /* the native answer itself is what the header bytes say (literal offsets) */
                                if (ma.idx != ref_get32(nat + REF_OFF_IDX) || ma.size != ref_get32(nat + REF_OFF_SIZE) || ma.frag_backend_metadata_size != ref_get32(nat + REF_OFF_BMS) ||
                                    ma.orig_data_size != ref_get64(nat + REF_OFF_ORIG) || ma.chksum_type != nat[REF_OFF_CT] || ma.backend_id != nat[REF_OFF_BEID] || ma.backend_version != ref_get32(nat + REF_OFF_BEVER) ||
                                    ma.chksum[0] != ref_get32(nat + REF_OFF_CHKSUM) || ma.chksum[7] != ref_get32(nat + REF_OFF_CHKSUM + 28))
                                    mon_viol("C11", "native-fields-differ-from-header", "%s: the metadata query on the native fragment does not return the header's field values (idx %u size %u orig %llu ct %u be %u ver %u)", vn, ma.idx, ma.size, (unsigned long long)ma.orig_data_size, ma.chksum_type, ma.backend_id, ma.backend_version);
                            }
                            int ha = is_invalid_fragment_header((fragment_header_t *)nat), hb = is_invalid_fragment_header((fragment_header_t *)tw);
                            if (v != 4 && ha != hb) mon_viol("C11", "header-verdict-differs", "%s: native %d twin %d", vn, ha, hb);
                            /* the output struct may be the fragment's own header (metadata converted in place, e.g. to hand the
                             * fragments to verify_stripe_metadata): same answer as with a separate struct */
                            if (v <= 1 && ra == 0 && rb == 0) {
                                uint8_t *ip = malloc(s->flen + 64);
                                for (int side = 0; side < 2; side++) {
                                    memcpy(ip, side ? tw : nat, s->flen);
                                    int ri = liberasurecode_get_fragment_metadata((char *)ip, (fragment_metadata_t *)ip);
                                    const fragment_metadata_t *mi = (const fragment_metadata_t *)ip, *mr = side ? &mb : &ma;
                                    mon_count("evaluations", 1); mon_count("in_place_queries", 1);
                                    if (ri != 0 || mi->idx != mr->idx || mi->size != mr->size || mi->orig_data_size != mr->orig_data_size || mi->chksum_mismatch != mr->chksum_mismatch || mi->chksum[0] != mr->chksum[0] || mi->backend_version != mr->backend_version)
                                        mon_viol("C11", "in-place-query-differs", "%s: metadata query with the output struct on the %s fragment's own header: rc %d, mismatch %d (separate struct: %d), size %u (%u)", vn, side ? "opposite-endian" : "native", ri, mi->chksum_mismatch, mr->chksum_mismatch, mi->size, mr->size);
                                }
                                free(ip);
                            }
                            /* reading a fragment - accepted or refused, either byte order - leaves its bytes alone */
                            if (mon_hash(nat, s->flen, 5) != dnat || mon_hash(tw, s->flen, 5) != dtw) mon_viol("C11", "query-modified-fragment", "%s: the %s fragment's bytes changed during the metadata query / header check (rc %d/%d)", vn, mon_hash(tw, s->flen, 5) != dtw ? "opposite-endian" : "native", ra, rb);
                            if (v == 1 && ct == CHKSUM_CRC32 && ra == 0 && rb == 0) {
                                mon_count("twin_pairs_with_payload_corruption", 1);
                                if (!mb.chksum_mismatch) mon_viol("C11", "twin-mismatch-undetected", "payload corruption is not reported for the opposite-endian twin (native reports %d)", ma.chksum_mismatch);
                            }
                            mon_distinct("nontrivial", mon_hash_u64((uint64_t)(f * 8 + v), mon_hash_str(x.ck, s->len + (uint64_t)lm)));
                        }
                        /* a valid opposite-endian copy of this fragment anywhere in a list that also holds the whole native stripe:
                         * under forced checks it is left out like any fragment that fails validation and the rest decodes (the
                         * verdict on a native header does not depend on what preceded it in the list); without forced checks the
                         * call is refused whatever the position */
                        if (f == 0 || f == n - 1) {
                            memcpy(tw, s->frag[f], s->flen); ref_hdr_twin(s->frag[f], tw, lm >= 3 && ref_get32(s->frag[f] + REF_OFF_MCRC) != crc_std(s->frag[f], 59));
                            for (int pos = 0; pos <= n; pos += (n > 8 ? 3 : 1)) {
                                char *lst[40]; int cnt = 0;
                                for (int i = 0; i <= n; i++) { if (i == pos) lst[cnt++] = (char *)tw; if (i < n) lst[cnt++] = (char *)s->frag[i]; }
                                char *out = NULL; uint64_t ol = 0;
                                int rc = liberasurecode_decode(x.desc, lst, cnt, s->flen, 1, &out, &ol);
                                mon_count("evaluations", 1); mon_count("forced_decodes_with_an_opposite_endian_copy_in_the_list", 1);
                                if (rc != 0 || ol != s->len || memcmp(out, s->data, s->len)) { mon_viol("C11", "mixed-order-list-refused", "forced decode of the whole native stripe plus an opposite-endian copy of fragment %d at list position %d: rc=%d%s", f, pos, rc, rc ? "" : ", wrong bytes"); if (rc == 0) liberasurecode_decode_cleanup(x.desc, out); break; }
                                liberasurecode_decode_cleanup(x.desc, out);
                                out = NULL; rc = liberasurecode_decode(x.desc, lst, cnt, s->flen, 0, &out, &ol);
                                if (rc == 0) { int okb = ol == s->len && !memcmp(out, s->data, s->len); liberasurecode_decode_cleanup(x.desc, out); if (!okb) { mon_viol("C11", "mixed-order-list-wrong-bytes", "decode of a list holding an opposite-endian copy at position %d returned 0 with wrong bytes", pos); break; } }
                            }
                        }
                        /* writer-version sweep: stamps on both sides of the 1.2.0 gate (which decides whether the metadata
                         * CRC applies), whose byte-reversed value lies on the other side, each with a good and a stale seal */
                        if (f == 0 || f == n - 1) {
                            static const uint32_t vers[] = { 0x000001, 0x000905, 0x00ffff, 0x010000, 0x010001, 0x010009, 0x0100ff, 0x010100, 0x010101, 0x010105, 0x0101ff, 0x0101ff + 1,
                                                             0x010201, 0x010300, 0x010604, 0x01ffff, 0x020000, 0x030000, 0x0a0000, 0x100000, 0xff0000, 0x01000000, 0x02010000, 0xffffffff, 0, 0 };
                            for (size_t vi = 0; vi < sizeof vers / sizeof vers[0]; vi++) for (int stale = 0; stale < 2; stale++) {
                                uint32_t V = vers[vi] ? vers[vi] : (uint32_t)rng_u64(&r) & (vi & 1 ? 0x01ffffffu : 0x0003ffffu);
                                if (V == 0) V = 0x010203;
                                memcpy(nat, s->frag[f], s->flen);
                                ref_put32(nat + REF_OFF_LIBVER, V);
                                ref_hdr_reseal(nat, (int)(vi & 1) && lm >= 3);
                                if (stale) nat[REF_OFF_MCRC + (vi & 3)] ^= (uint8_t)(0x11 << (vi & 3));
                                int variant_legacy = ref_get32(nat + REF_OFF_MCRC) == crc_legacy(nat, 59) && ref_get32(nat + REF_OFF_MCRC) != crc_std(nat, 59);
                                memcpy(tw, nat, s->flen);
                                ref_hdr_twin(nat, tw, variant_legacy);
                                if (stale) { /* the twin carries the byte-swapped stale value: rebuild it from the native stored word */ ref_put32(tw + REF_OFF_MCRC, __builtin_bswap32(ref_get32(nat + REF_OFF_MCRC))); }
                                fragment_metadata_t ma, mb; memset(&ma, 0xA5, sizeof ma); memset(&mb, 0x5A, sizeof mb);   /* stale caller structs: every member must be assigned by the query */
                                uint64_t dnat = mon_hash(nat, s->flen, 5), dtw = mon_hash(tw, s->flen, 5);
                                int ra = liberasurecode_get_fragment_metadata((char *)nat, &ma);
                                int rb = liberasurecode_get_fragment_metadata((char *)tw, &mb);
                                int ha = is_invalid_fragment_header((fragment_header_t *)nat), hb = is_invalid_fragment_header((fragment_header_t *)tw);
                                if (mon_hash(nat, s->flen, 5) != dnat || mon_hash(tw, s->flen, 5) != dtw) mon_viol("C11", "query-modified-fragment", "writer version 0x%06x, %s seal: the %s fragment's bytes changed during the metadata query / header check (rc %d/%d)", V, stale ? "stale" : "good", mon_hash(tw, s->flen, 5) != dtw ? "opposite-endian" : "native", ra, rb);
                                mon_count("evaluations", 1); mon_count("twin_pairs", 1); mon_count("twin_pairs_version_sweep", 1);
                                char vn[96]; snprintf(vn, sizeof vn, "writer version 0x%06x, %s seal", V, stale ? "stale" : "good");
                                int want = ref_hdr_accept(nat);
                                if (want != ref_hdr_accept(tw)) mon_logf("HARNESS twin builder changed the reference verdict for version 0x%x", V);
                                if ((ha == 0) != (hb == 0)) mon_viol("C11", "header-verdict-differs", "%s: native %d twin %d (reference: %s)", vn, ha, hb, want ? "accept" : "reject");
                                else if ((ha == 0) != (want != 0)) mon_viol("C11", "header-verdict-differs-from-reference", "%s: native and twin both %d, reference %s", vn, ha, want ? "accepts" : "rejects");
                                cmp_md(vn, ra, &ma, rb, &mb);
                                mon_distinct("nontrivial", mon_hash_u64((uint64_t)V * 2 + (uint64_t)stale, mon_hash_str(x.ck, s->len + (uint64_t)f)));
                            }
                        }
                        if (f == 0 && si == 0 && ci % 23 == 0) mon_sample("{\"config\":\"%s\",\"fragment\":%d,\"variants\":[\"pristine\",\"payload bit\",\"idx re-sealed\",\"backend id/version re-sealed\",\"stale seal\",\"checksum words re-sealed\"]}", x.ck, f);
                        free(nat); free(tw);
                        mon_end();
                    }
                }
            }
            ctx_close(&x);
        }
    }
    set_legacy(0);
}

/* ================================================================ C12 */
typedef struct { int be, k, m; uint32_t bever; } inst_t;

static int ref_invalid(const inst_t *I, const uint8_t *f, uint64_t flen)
{
    if (!ref_hdr_accept(f) || !ref_hdr_host_order(f)) return 1;
    if (ref_get32(f + REF_OFF_LIBVER) > liberasurecode_get_version()) return 1;
    uint32_t idx = ref_get32(f + REF_OFF_IDX);
    if (idx >= (uint32_t)(I->k + I->m)) return 1;
    if (f[REF_OFF_BEID] != I->be) return 1;
    if (I->be != EC_BACKEND_NULL && ref_get32(f + REF_OFF_BEVER) != I->bever) return 1;
    if (f[REF_OFF_CT] == CHKSUM_CRC32) {
        uint64_t P = ref_get32(f + REF_OFF_SIZE);
        if (P > flen - 80) return -1;                 /* forged size: not evaluated */
        uint32_t st = ref_get32(f + REF_OFF_CHKSUM);
        if (crc_std(f + 80, P) != st && crc_legacy(f + 80, P) != st) return 1;
    }
    return 0;
}

static int ref_stripe_bad(const inst_t *I, const uint8_t *f)
{
    uint32_t idx = ref_get32(f + REF_OFF_IDX);
    if (idx >= (uint32_t)(I->k + I->m)) return 1;
    if (f[REF_OFF_BEID] != I->be) return 1;
    if (I->be != EC_BACKEND_NULL && ref_get32(f + REF_OFF_BEVER) != I->bever) return 1;
    if (f[REF_OFF_MISMATCH] == 1) return 1;
    return 0;
}

/* C12: "every fragment an instance has just encoded or reconstructed validates as good" also when several threads write
 * through ONE instance at the same time, each with objects of its own length (so that what one call notes about sizes is not
 * what the other needs): every thread validates each fragment it was just handed. */
#include <pthread.h>
typedef struct { int desc; cfg_t c; int id; long made, bad; int iters; } c12t_t;
static void *c12_thread(void *v)
{
    c12t_t *a = v; int n = a->c.k + a->c.m; rng_t r; rng_seed(&r, MO.seed, 0xC12000 + (uint64_t)a->id);
    uint64_t len = (uint64_t)a->c.k * (uint64_t)(16 + 40 * a->id) + (uint64_t)a->id * 3 + 1; uint8_t *data = malloc(len); rng_fill(&r, data, len);
    for (int it = 0; it < a->iters; it++) {
        char **ed = NULL, **ep = NULL; uint64_t fl = 0;
        if (liberasurecode_encode(a->desc, (char *)data, len, &ed, &ep, &fl) != 0) { a->bad++; continue; }
        for (int f = 0; f < n; f++) {
            char *fr = f < a->c.k ? ed[f] : ep[f - a->c.k]; fragment_metadata_t md;
            int rc = liberasurecode_get_fragment_metadata(fr, &md);
            if (rc != 0 || md.chksum_mismatch || md.idx != (uint32_t)f || is_invalid_fragment(a->desc, fr)) a->bad++;
            a->made++;
        }
        if (it % 8 == 0 && a->c.m >= 1) {      /* and one it has just rebuilt */
            char *lst[40]; int cnt = 0; for (int f = 1; f < n; f++) lst[cnt++] = f < a->c.k ? ed[f] : ep[f - a->c.k];
            char *of = malloc(fl); fragment_metadata_t md;
            if (liberasurecode_reconstruct_fragment(a->desc, lst, cnt, fl, 0, of) != 0 || liberasurecode_get_fragment_metadata(of, &md) != 0 || md.chksum_mismatch || is_invalid_fragment(a->desc, of)) a->bad++;
            a->made++; free(of);
        }
        liberasurecode_encode_cleanup(a->desc, ed, ep);
    }
    free(data);
    return NULL;
}
static void c12_shared_instance_threads(void)
{
    noise_stop();
    static const cfg_t shapes[] = { { EC_BACKEND_LIBERASURECODE_RS_VAND, 4, 2, 2, 0, CHKSUM_CRC32 }, { EC_BACKEND_FLAT_XOR_HD, 10, 5, 3, 0, CHKSUM_CRC32 }, { EC_BACKEND_LIBPHAZR, 4, 2, 1, 0, CHKSUM_CRC32 } };
    for (size_t si = 0; si < sizeof shapes / sizeof shapes[0]; si++) {
        if (!liberasurecode_backend_available((ec_backend_id_t)shapes[si].be)) continue;
        if (!mon_case("%s|threads-writing-through-one-instance", be_name(shapes[si].be))) continue;
        int d = lec_create(&shapes[si]);
        if (d <= 0) { mon_viol("C12", "create-failed", "rc=%d", d); mon_end(); continue; }
        enum { NT = 4 }; c12t_t a[NT]; pthread_t th[NT];
        for (int t = 0; t < NT; t++) { a[t] = (c12t_t){ d, shapes[si], t, 0, 0, MO.thorough ? 3000 : 400 }; pthread_create(&th[t], NULL, c12_thread, &a[t]); }
        long made = 0, bad = 0;
        for (int t = 0; t < NT; t++) { pthread_join(th[t], NULL); made += a[t].made; bad += a[t].bad; }
        mon_count("evaluations", made); mon_count("fragments_validated_by_concurrent_writers", made);
        if (bad) mon_viol("C12", "fresh-fragment-invalid", "%ld of %ld fragments that %d threads had just encoded or rebuilt through one %s instance (each thread its own object length) did not validate", bad, made, NT, be_name(shapes[si].be));
        liberasurecode_instance_destroy(d);
        mon_distinct("nontrivial", mon_hash_u64((uint64_t)si, 0xC12));
        mon_end();
    }
}

static void run_validate(void)
{
    /* a pool of instances (I) and stripes from instances (J) */
    static const cfg_t pool_q[] = {
        { EC_BACKEND_LIBERASURECODE_RS_VAND, 4, 2, 2, 0, CHKSUM_CRC32 }, { EC_BACKEND_LIBERASURECODE_RS_VAND, 10, 4, 4, 0, CHKSUM_NONE },
        { EC_BACKEND_LIBERASURECODE_RS_VAND, 2, 2, 2, 0, CHKSUM_CRC32 }, { EC_BACKEND_LIBERASURECODE_RS_VAND, 28, 4, 4, 0, CHKSUM_CRC32 },
        { EC_BACKEND_FLAT_XOR_HD, 3, 3, 3, 0, CHKSUM_CRC32 }, { EC_BACKEND_FLAT_XOR_HD, 10, 5, 3, 0, CHKSUM_NONE }, { EC_BACKEND_FLAT_XOR_HD, 12, 6, 4, 0, CHKSUM_CRC32 },
        { EC_BACKEND_NULL, 4, 2, 2, 0, CHKSUM_CRC32 }, { EC_BACKEND_NULL, 8, 4, 4, 0, CHKSUM_NONE },
        { EC_BACKEND_ISA_L_RS_VAND, 4, 2, 2, 0, CHKSUM_CRC32 }, { EC_BACKEND_ISA_L_RS_CAUCHY, 6, 3, 3, 0, CHKSUM_CRC32 }, { EC_BACKEND_ISA_L_RS_CAUCHY, 4, 2, 2, 0, CHKSUM_NONE },
        { EC_BACKEND_SHSS, 4, 2, 2, 0, CHKSUM_CRC32 },
        /* checksum-type arguments beyond the enum whose low byte (all the header stores) is a known type: creation accepts
         * them; what such an instance writes still has to validate */
        { EC_BACKEND_LIBERASURECODE_RS_VAND, 3, 2, 2, 0, 256 + CHKSUM_CRC32 }, { EC_BACKEND_FLAT_XOR_HD, 5, 5, 3, 0, 512 + CHKSUM_CRC32 }, { EC_BACKEND_LIBERASURECODE_RS_VAND, 2, 1, 1, 0, 256 + CHKSUM_NONE },
        /* the third checksum type (recorded in the header, no checksum computed by this library) */
        { EC_BACKEND_LIBERASURECODE_RS_VAND, 4, 2, 2, 0, CHKSUM_MD5 }, { EC_BACKEND_FLAT_XOR_HD, 6, 6, 4, 0, CHKSUM_MD5 },
    };
    int np = (int)(sizeof pool_q / sizeof pool_q[0]);
    static ctx_t X[20];
    int ok[20] = {0};
    int shss_ok = liberasurecode_backend_available(EC_BACKEND_SHSS);
    for (int i = 0; i < np; i++) {
        cfg_t c = pool_q[i];
        if (!isal_ok && (c.be == EC_BACKEND_ISA_L_RS_VAND || c.be == EC_BACKEND_ISA_L_RS_CAUCHY)) continue;
        if (!shss_ok && c.be == EC_BACKEND_SHSS) continue;
        uint64_t lens[2] = { (uint64_t)c.k * 4 * 9 + 1, 333 + MO.seed % 100 }; int kinds[2] = { DATA_CRC0, DATA_HIGH };
        ok[i] = ctx_open(&X[i], &c, lens, kinds, 2) == 0;
    }
    long emitted = 0;
    for (int I = 0; I < np; I++) if (ok[I]) for (int si = 0; si < X[I].nstr; si++)
        if (mon_case("I=%s|len=%llu|stripe-check-over-returned-metadata", X[I].ck, (unsigned long long)X[I].st[si].len)) { check_stripe_blobs("C12", &X[I], &X[I].st[si]); mon_distinct("nontrivial", mon_hash_u64((uint64_t)si, mon_hash_str(X[I].ck, 1212))); mon_end(); }
    for (int I = 0; I < np; I++) {
        if (!ok[I]) continue;
        inst_t in = { X[I].c.be, X[I].c.k, X[I].c.m, lec_backend_version(X[I].c.be) };
        for (int J = 0; J < np; J++) {
            if (!ok[J]) continue;
            for (int si = 0; si < X[J].nstr; si++) {
                stripe_t *s = &X[J].st[si]; int nJ = s->n;
                for (int f = 0; f < nJ; f += (nJ > 8 && !MO.thorough ? 5 : 1)) {
                    if (!mon_case("I=%s|J=%s|len=%llu|frag=%d", X[I].ck, X[J].ck, (unsigned long long)s->len, f)) continue;
                    rng_t r; rng_case(&r);
                    /* the reader's legacy-CRC WRITE switch must not influence what it accepts: a third of the cases validate with it set */
                    lec_env_legacy(emitted % 3 == 1 ? 3 : (emitted % 3 == 2 ? 4 : 0));
                    mon_count(emitted % 3 ? "cases_validated_with_write_legacy_switch_set" : "cases_validated_with_switch_unset", 1);
                    uint8_t *g = malloc(s->flen);
                    int nI = in.k + in.m;
                    /* edits: -1 pristine; idx values; backend ids; versions; mismatch flag; payload flip; stale seal; twin */
                    uint32_t idxv[] = { 0, (uint32_t)(nI - 1), (uint32_t)nI, (uint32_t)(nI + 1), 0x80000000u, 0xffffffffu, (uint32_t)nJ, 31, 32, 33 };
                    int nedits = 1 + 10 + (I == J || MO.thorough ? 256 : 24) + 4 + 4 + 5 + 24;
                    for (int e = 0; e < nedits; e++) {
                        memcpy(g, s->frag[f], s->flen);
                        char what[96]; int stripe_only = 0;
                        int q = e;
                        if (q == 0) snprintf(what, sizeof what, "pristine");
                        else if ((q -= 1) < 10) { ref_put32(g + REF_OFF_IDX, idxv[q]); ref_hdr_reseal(g, q & 1); snprintf(what, sizeof what, "idx:=%u re-sealed", idxv[q]); }
                        else if ((q -= 10) < (I == J || MO.thorough ? 256 : 24)) { int id = (I == J || MO.thorough) ? q : (int)rng_below(&r, 256); g[REF_OFF_BEID] = (uint8_t)id; ref_hdr_reseal(g, 0); snprintf(what, sizeof what, "backend_id:=%d re-sealed", id); }
                        else if ((q -= (I == J || MO.thorough ? 256 : 24)) < 4) { static const int dv[] = { 1, -1, 256, 65536 }; ref_put32(g + REF_OFF_BEVER, ref_get32(g + REF_OFF_BEVER) + (uint32_t)dv[q]); ref_hdr_reseal(g, 0); snprintf(what, sizeof what, "backend_version%+d re-sealed", dv[q]); }
                        else if ((q -= 4) < 4) { static const int dv[] = { 1, -1, 256, -65536 }; uint32_t nv = ref_get32(g + REF_OFF_LIBVER) + (uint32_t)dv[q]; if (nv < REF_VER_1_2_0) nv = REF_VER_1_2_0; ref_put32(g + REF_OFF_LIBVER, nv); ref_hdr_reseal(g, 0); snprintf(what, sizeof what, "libec_version%+d re-sealed", dv[q]); }
                        else {
                            q -= 4;
                            if (q == 0) { g[REF_OFF_MISMATCH] = 1; ref_hdr_reseal(g, 0); snprintf(what, sizeof what, "mismatch flag set, re-sealed"); if (g[REF_OFF_CT] != CHKSUM_CRC32) stripe_only = 1; }
                            else if (q == 1) { if (s->flen > 80) g[80 + rng_below(&r, (uint32_t)(s->flen - 80))] ^= 0x01; snprintf(what, sizeof what, "payload bit flipped"); }
                            else if (q == 2) { g[rng_below(&r, 59)] ^= 0x20; snprintf(what, sizeof what, "metadata bit flipped, stale seal"); }
                            else if (q == 3) { uint8_t t[80]; ref_hdr_twin(g, t, 0); memcpy(g, t, 80); snprintf(what, sizeof what, "opposite-endian twin"); stripe_only = 2; }
                            else if (q == 4) { ref_put32(g + REF_OFF_MAGIC, (uint32_t)rng_u64(&r)); snprintf(what, sizeof what, "magic randomised"); stripe_only = 2; }
                            else {
                                /* writer versions on both sides of the 1.2.0 gate and of the running version, in host order and as an
                                 * opposite-endian twin (never valid for per-fragment validation, whatever its version) */
                                static const uint32_t wv[] = { 0x010000, 0x010100, 0x010001, 0x0101ff, 0x010200, 0, 1, 0x020000, 0x000001, 0xffffffffu, 0x80010604u, 0x000100 };
                                int vi = (q - 5) / 2, tw = (q - 5) & 1;
                                uint32_t V = wv[vi] == 0 ? liberasurecode_get_version() : wv[vi] == 1 ? liberasurecode_get_version() + 1 : wv[vi];
                                ref_put32(g + REF_OFF_LIBVER, V); ref_hdr_reseal(g, vi & 1);
                                if (tw) { uint8_t t[80]; int lg = ref_get32(g + REF_OFF_MCRC) == crc_legacy(g, 59) && ref_get32(g + REF_OFF_MCRC) != crc_std(g, 59); ref_hdr_twin(g, t, lg); memcpy(g, t, 80); }
                                snprintf(what, sizeof what, "writer version %08x%s", V, tw ? ", opposite-endian twin" : " re-sealed");
                                stripe_only = 2;
                            }
                        }
                        char kind[160];
                        if (stripe_only != 1) {
                            int want = ref_invalid(&in, g, s->flen);
                            if (want >= 0) {
                                int got = is_invalid_fragment(X[I].desc, (char *)g);
                                mon_count("evaluations", 1); mon_count("is_invalid_fragment_calls", 1);
                                mon_count(want ? "reference_says_invalid" : "reference_says_valid", 1);
                                if ((got != 0) != (want != 0)) {
                                    snprintf(kind, sizeof kind, "is_invalid_fragment:%s:%s", what, want ? "accepted-but-must-reject" : "rejected-but-valid");
                                    mon_viol("C12", kind, "is_invalid_fragment=%d, reference verdict %d (fragment idx field %u, backend id %u, version %08x; instance %s)", got, want, ref_get32(g + REF_OFF_IDX), g[REF_OFF_BEID], ref_get32(g + REF_OFF_BEVER), X[I].ck);
                                }
                            }
                        }
                        if (stripe_only != 2) {
                            int want = ref_stripe_bad(&in, g);
                            char *lst[40]; int cnt = 0;
                            stripe_t *own = &X[I].st[0];
                            int pos = (int)rng_below(&r, (uint32_t)own->n + 1);
                            int with_own = e % 2;
                            if (with_own) { for (int i = 0; i < own->n; i++) { if (i == pos) lst[cnt++] = (char *)g; lst[cnt++] = (char *)own->frag[i]; } if (pos == own->n) lst[cnt++] = (char *)g; }
                            else lst[cnt++] = (char *)g;
                            int rc = liberasurecode_verify_stripe_metadata(X[I].desc, lst, cnt);
                            mon_count("evaluations", 1); mon_count("verify_stripe_calls", 1);
                            if (rc > 0 || (rc < 0) != (want != 0)) {
                                snprintf(kind, sizeof kind, "verify_stripe_metadata:%s:%s", what, want ? "accepted-but-must-reject" : "rejected-but-valid");
                                mon_viol("C12", kind, "verify_stripe_metadata=%d with %d fragment(s), reference says %s", rc, cnt, want ? "negative" : "0");
                            }
                        }
                        mon_distinct("nontrivial", mon_hash(g, 80, mon_hash_str(X[I].ck, 61)));
                    }
                    if (I == J && f == 0) {
                        /* just-reconstructed fragments validate as good */
                        for (int d = 0; d < nJ; d += (nJ > 8 ? 4 : 1)) {
                            if (in.be == EC_BACKEND_NULL) break;
                            if (in.be == EC_BACKEND_ISA_L_RS_VAND && !code_firstk_invertible(&X[I].cd, (nJ == 32 ? 0xffffffffu : (1u << nJ) - 1) & ~(1u << d))) continue;
                            /* sup = 1: the destination is among the supplied fragments as well (the library then has nothing to
                             * compute); the output buffer holds other bytes before the call in both variants */
                            for (int sup = 0; sup < 2; sup++) {
                            char *lst[40]; int cnt = 0;
                            for (int i = 0; i < nJ; i++) if (i != d || sup) lst[cnt++] = (char *)s->frag[i];
                            memset(g, 0xA7, s->flen);
                            int rc = liberasurecode_reconstruct_fragment(X[I].desc, lst, cnt, s->flen, d, (char *)g);
                            mon_count("evaluations", 1); mon_count("reconstructed_fragments_validated", 1);
                            if (rc != 0) mon_viol("C12", "reconstruct-failed", "rc=%d (destination %s)", rc, sup ? "also supplied" : "missing");
                            else {
                                if (is_invalid_fragment(X[I].desc, (char *)g)) mon_viol("C12", "reconstructed-fragment-invalid", "fragment %d just reconstructed (destination %s) is reported invalid", d, sup ? "also supplied" : "missing");
                                fragment_metadata_t gm; int gr = liberasurecode_get_fragment_metadata((char *)g, &gm);
                                if (gr != 0 || gm.chksum_mismatch) mon_viol("C12", "reconstructed-fragment-invalid", "fragment %d just reconstructed (destination %s): metadata query rc=%d, mismatch=%d", d, sup ? "also supplied" : "missing", gr, gr ? -1 : (int)gm.chksum_mismatch);
                                char *one[1] = { (char *)&gm };
                                if (gr == 0 && liberasurecode_verify_stripe_metadata(X[I].desc, one, 1) != 0) mon_viol("C12", "reconstructed-fragment-fails-stripe-check", "fragment %d", d);
                            }
                            }
                        }
                    }
                    if (emitted % 211 == 0) mon_sample("{\"instance\":\"%s\",\"fragment_from\":\"%s\",\"fragment\":%d,\"edits\":%d}", X[I].ck, X[J].ck, f, nedits);
                    free(g);
                    lec_env_legacy(0);
                    mon_end();
                    emitted++;
                }
            }
        }
    }
    for (int i = 0; i < np; i++) if (ok[i] || X[i].desc > 0) ctx_close(&X[i]);
    c12_shared_instance_threads();
}

/* The entry points that take no descriptor (metadata query, header check, the exported historical CRC) asked about fragments
 * BEFORE this process has created any instance - and, in the restarts after a crash, at whatever point the shard resumes: their
 * verdicts depend on the 80+P bytes alone.  The fragments come from the model (standard and historical seals, native and
 * opposite-endian), so no library call has happened yet. */
static void pre_instance_checks(void)
{
    if (!mon_case_all("no-instance-yet|descriptor-less-entry-points")) return;
    cfg_t c = { EC_BACKEND_LIBERASURECODE_RS_VAND, 4, 2, 2, 0, CHKSUM_CRC32 };
    cfg_use(&c);
    uint64_t len = 301; uint8_t data[301]; for (int i = 0; i < 301; i++) data[i] = (uint8_t)(i * 37 + 11);
    uint64_t fl = model_fragment_len(&c, len); uint8_t *fr[6], *tw = malloc(fl);
    for (int legacy = 0; legacy < 2; legacy++) {
        for (int f = 0; f < 6; f++) fr[f] = malloc(fl);
        model_stripe(&c, data, len, legacy, fr);
        for (int f = 0; f < 6; f++) for (int side = 0; side < 2; side++) {
            const uint8_t *g = fr[f];
            if (side) { memcpy(tw, fr[f], fl); ref_hdr_twin(fr[f], tw, legacy); g = tw; }
            fragment_metadata_t md; memset(&md, 0x77, sizeof md);
            int rc = liberasurecode_get_fragment_metadata((char *)g, &md), hv = is_invalid_fragment_header((fragment_header_t *)g);
            mon_count("evaluations", 2); mon_count("queries_before_any_instance", 2);
            if (rc != 0 || hv != 0 || md.chksum_mismatch || md.idx != (uint32_t)f || md.orig_data_size != len)
                mon_viol(PROP, "pre-instance-verdict-differs", "before any instance exists: %s-sealed %s fragment %d: query rc=%d header verdict=%d mismatch=%d idx=%u", legacy ? "historical" : "standard", side ? "opposite-endian" : "native", f, rc, hv, md.chksum_mismatch, md.idx);
            /* damaged metadata under a stored checksum of 0 / of the other variant: refused */
            uint8_t *d = malloc(fl); memcpy(d, g, fl); d[REF_OFF_ORIG + 1] ^= 0x20; ref_put32(d + REF_OFF_MCRC, f & 1 ? 0 : 0xffffffffu);
            int rc2 = liberasurecode_get_fragment_metadata((char *)d, &md), hv2 = is_invalid_fragment_header((fragment_header_t *)d);
            if (!ref_hdr_accept(d) && (rc2 == 0 || hv2 == 0)) mon_viol(PROP, "pre-instance-verdict-differs", "before any instance exists: damaged metadata with stored checksum %s accepted (rc %d, header verdict %d)", f & 1 ? "0" : "ffffffff", rc2, hv2);
            /* payload damage is reported */
            memcpy(d, g, fl); d[80 + (f * 7) % (fl - 80)] ^= 0x01;
            rc2 = liberasurecode_get_fragment_metadata((char *)d, &md);
            if (rc2 != 0 || !md.chksum_mismatch) mon_viol(PROP, "pre-instance-verdict-differs", "before any instance exists: payload damage in a %s-sealed fragment not reported (rc %d, mismatch %d)", legacy ? "historical" : "standard", rc2, md.chksum_mismatch);
            free(d);
        }
        { uint8_t buf[64]; for (int i = 0; i < 64; i++) buf[i] = (uint8_t)(i * 5 + legacy); if ((uint32_t)liberasurecode_crc32_alt(0, buf, 64) != crc_legacy(buf, 64)) mon_viol(PROP, "pre-instance-verdict-differs", "liberasurecode_crc32_alt differs from the historical CRC model before any instance exists"); }
        for (int f = 0; f < 6; f++) free(fr[f]);
    }
    free(tw);
    mon_distinct("nontrivial", 424242);
    mon_end();
}

int main(int argc, char **argv)
{
    mon_init(argc, argv);
    LEC_PROP = MO.prop;
    if (!strcmp(MO.prop, "C09") || !strcmp(MO.prop, "C10") || !strcmp(MO.prop, "C11") || !strcmp(MO.prop, "C12")) pre_instance_checks();     /* before ANY other library call */
    isal_ok = liberasurecode_backend_available(EC_BACKEND_ISA_L_RS_VAND);
    mon_count0("isal_reference_plugin_available", isal_ok);
    lec_env_legacy(0);
    if (MO.noise) noise_start();
    if (!strcmp(PROP, "C07")) run_wire();
    else if (!strcmp(PROP, "C08")) run_sizes();
    else if (!strcmp(PROP, "C09")) run_header();
    else if (!strcmp(PROP, "C10")) run_checksum();
    else if (!strcmp(PROP, "C11")) run_endian();
    else if (!strcmp(PROP, "C12")) run_validate();
    else { mon_logf("HARNESS unknown property %s", PROP); mon_finish(); return 2; }
    noise_stop();
    mon_finish();
    return 0;
}
