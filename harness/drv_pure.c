/* C15: purity, bounds, history independence.  Every input (data, fragments, index
 * lists) lives in its own mapping that is read-only during the call and abuts a
 * PROT_NONE page, so a stray write or an over/under-read is a SIGSEGV whose
 * address the fault handler maps back to the region; outputs are compared with
 * the reference serializer and across preceding histories / live instances /
 * threads. */
#include "lec.h"
#include "erasurecode_backend.h"
#include <stdio.h>
#include <stdlib.h>
#include <string.h>
#include <pthread.h>

#define PROP LEC_PROP
static int isal_ok;

static int all_cfgs(cfg_t *cfgs, int max)
{
    int nc = 0;
    nc += cfgs_rs(cfgs + nc, max - nc, EC_BACKEND_LIBERASURECODE_RS_VAND, MO.thorough, MO.seed);
    nc += cfgs_xor(cfgs + nc, max - nc);
    nc += cfgs_shss(cfgs + nc, max - nc);
    nc += cfgs_jer(cfgs + nc, max - nc);
    nc += cfgs_phazr(cfgs + nc, max - nc);
    if (isal_ok) {
        nc += cfgs_rs(cfgs + nc, max - nc, EC_BACKEND_ISA_L_RS_VAND, 0, MO.seed + 1);
        nc += cfgs_rs(cfgs + nc, max - nc, EC_BACKEND_ISA_L_RS_CAUCHY, 0, MO.seed + 2);
    }
    return nc;
}

/* encode data that sits read-only against a guard page and compare with the model */
static int encode_guarded(const cfg_t *c, int desc, const uint8_t *src, uint64_t len, int place, stripe_t *s, const char *what)
{
    uint8_t *d = g_alloc(len, place);
    memcpy(d, src, len);
    g_ro(d);
    int rc = stripe_make(s, desc, c, d, len);
    mon_count("evaluations", 1); mon_count("guarded_encodes", 1);
    if (rc != 0) { mon_viol("C15", "encode-failed", "%s: encode returned %d", what, rc); g_free(d); return -1; }
    if (len && memcmp(d, src, len)) mon_viol("C15", "encode-modified-input", "%s: input data changed", what);
    s->data = NULL;
    uint64_t ef = model_fragment_len(c, len);
    if (s->flen != ef) mon_viol("C15", "encode-length-differs", "%s: fragment_len %llu model %llu", what, (unsigned long long)s->flen, (unsigned long long)ef);
    else {
        uint8_t *exp[64]; for (int f = 0; f < s->n; f++) exp[f] = malloc(ef);
        model_stripe(c, src, len, 0, exp);
        for (int f = 0; f < s->n; f++) if (memcmp(exp[f], s->frag[f], ef)) { mon_viol("C15", "encode-not-pure-function", "%s: fragment %d differs from the reference serializer", what, f); break; }
        for (int f = 0; f < s->n; f++) free(exp[f]);
    }
    g_free(d);
    return 0;
}

/* unrelated API activity: creates, encodes, failing decodes, destroys */
static void noise(rng_t *r, int steps)
{
    int live[3] = { -1, -1, -1 }; cfg_t lc[3];
    static const cfg_t cf[] = { { EC_BACKEND_LIBERASURECODE_RS_VAND, 5, 3, 3, 0, CHKSUM_CRC32 }, { EC_BACKEND_FLAT_XOR_HD, 7, 5, 3, 0, CHKSUM_NONE }, { EC_BACKEND_LIBERASURECODE_RS_VAND, 2, 1, 1, 0, CHKSUM_NONE }, { EC_BACKEND_NULL, 4, 2, 2, 0, CHKSUM_CRC32 }, { EC_BACKEND_FLAT_XOR_HD, 12, 6, 4, 0, CHKSUM_CRC32 } };
    for (int st = 0; st < steps; st++) {
        int sl = (int)rng_below(r, 3);
        if (live[sl] < 0) { lc[sl] = cf[rng_below(r, 5)]; live[sl] = lec_create(&lc[sl]); continue; }
        int op = (int)rng_below(r, 4);
        if (op == 0) { liberasurecode_instance_destroy(live[sl]); live[sl] = -1; continue; }
        uint64_t len = rng_below(r, 700); uint8_t *d = malloc(len + 1); rng_fill(r, d, len);
        stripe_t s;
        if (stripe_make(&s, live[sl], &lc[sl], d, len) == 0) {
            char *lst[64]; int cnt = 0; int drop = (int)rng_below(r, (uint32_t)s.n);
            for (int i = drop; i < s.n; i++) lst[cnt++] = (char *)s.frag[i];
            char *out = NULL; uint64_t ol = 0;
            if (cnt && liberasurecode_decode(live[sl], lst, cnt, s.flen, (int)rng_below(r, 2), &out, &ol) == 0) liberasurecode_decode_cleanup(live[sl], out);
            if (cnt) { char *o = malloc(s.flen); liberasurecode_reconstruct_fragment(live[sl], lst, cnt, s.flen, (int)rng_below(r, (uint32_t)s.n), o); free(o); }
            stripe_free(&s);
        }
        free(d);
    }
    for (int i = 0; i < 3; i++) if (live[i] > 0) liberasurecode_instance_destroy(live[i]);
}

static void run_pure(void)
{
    static cfg_t cfgs[1200];
    int nc = all_cfgs(cfgs, 1200);
    static const char *place_name[] = { "", "slack16", "end-pinned", "start-pinned" };
    for (int ci = 0; ci < nc; ci++) {
        cfg_t c = cfgs[ci]; c.ct = (ci & 1) ? CHKSUM_CRC32 : CHKSUM_NONE;
        char ck[96]; cfg_key(&c, ck, sizeof ck);
        int desc = -1;
        if (mon_case_all("%s|create", ck)) { desc = lec_create(&c); if (desc <= 0) mon_viol("C15", "create-failed", "rc=%d", desc); mon_end(); }
        if (desc <= 0) continue;
        code_t cd; code_init(&cd, &c);
        rng_t r; rng_seed(&r, MO.seed, mon_hash_str(ck, 81));
        cfg_use(&c);
        uint64_t A = (uint64_t)c.k * (uint64_t)ref_word_bytes(c.be);
        uint64_t lens[8] = { 0, 1, A + 1, 16 * A, 16 * A - 1, 3 * A + (A > 2 ? 2 : 0), 200 + rng_below(&r, 3000), (uint64_t)c.k * 16 * (1 + rng_below(&r, 8)) };
        int nl = MO.thorough ? 8 : 5;
        int n = c.k + c.m, tol = cfg_tol(&c);
        uint32_t full = n == 32 ? 0xffffffffu : ((1u << n) - 1);
        for (int li = 0; li < nl; li++) {
            uint64_t len = lens[MO.thorough ? li : (li * 3 + ci) % 8];
            if (!mon_case("%s|len=%llu", ck, (unsigned long long)len)) continue;
            rng_t rc; rng_case(&rc);
            uint8_t *src = malloc(len + 1); rng_fill(&rc, src, len);
            stripe_t s;
            char what[128]; snprintf(what, sizeof what, "first encode");
            if (encode_guarded(&c, desc, src, len, (li & 1) ? G_START : G_END, &s, what) == 0) {
                s.data = src;
                /* ---- consuming calls on guarded, read-only inputs ---- */
                int nsets = MO.thorough ? 40 : 5;
                for (int e = 0; e < nsets; e++) {
                    int perm[32]; for (int i = 0; i < n; i++) perm[i] = i;
                    rng_shuffle(&rc, perm, n);
                    int sz = e == 0 ? 0 : (e == 1 ? tol : (int)rng_below(&rc, (uint32_t)tol + 1));
                    if (sz && !(mask_of(perm, sz) & ((1u << c.k) - 1)) && e < 3) perm[0] = (int)rng_below(&rc, (uint32_t)c.k);   /* lose data so the backend really runs */
                    /* two fixed sets: the first one / two data fragments lost, everything behind them present (survivors adjacent) */
                    if (e == 2 && tol >= 1) { for (int i = 0; i < n; i++) perm[i] = i; sz = 1; }
                    if (e == 3 && tol >= 2 && c.k >= 3) { for (int i = 0; i < n; i++) perm[i] = i; sz = 2; }
                    uint32_t erased = mask_of(perm, sz), present = full & ~erased;
                    int place = 1 + (e % 3);
                    int idx[PRES_MAX]; int cnt = list_of(present, n, idx);
                    if (e % 2) rng_shuffle(&rc, idx, cnt);
                    if (e % 4 == 3 && cnt < PRES_MAX - 1) { idx[cnt] = idx[0]; cnt++; }
                    pres_t pr; pres_build(&pr, &s, idx, cnt, e % 3 == 0 ? AL_MISALIGNED : AL_ALIGNED, place, &rc);
                    /* one set in three: the fragments as an older release of the library stamped them (writer version below the
                     * running one, re-sealed); still read-only while the library works on them */
                    int oldw = (e % 3 == 2) && s.flen >= 80;
                    if (oldw) {
                        static const uint32_t ov[] = { 0x010500, 0x010200, 0x010100, 0x010603 };
                        uint32_t v = ov[(e / 3 + li) % 4];
                        for (int i = 0; i < cnt; i++) { g_rw(pr.base[i]); ref_put32((uint8_t *)pr.ptr[i] + REF_OFF_LIBVER, v); ref_hdr_reseal((uint8_t *)pr.ptr[i], idx[i] & 1); g_ro(pr.base[i]); }
                        mon_count("guarded_sets_with_old_writer_version", 1);
                    }
                    uint64_t dig[PRES_MAX]; for (int i = 0; i < cnt; i++) dig[i] = mon_hash(pr.ptr[i], s.flen, 7);
                    int req = c.be == EC_BACKEND_FLAT_XOR_HD || c.be == EC_BACKEND_LIBERASURECODE_RS_VAND || code_firstk_invertible(&cd, present);
                    /* the array of fragment pointers is an input too: on a read-only mapping that ends at a guard page */
                    char **plist = g_alloc(sizeof(char *) * (size_t)(cnt ? cnt : 1), G_END);
                    memcpy(plist, pr.ptr, sizeof(char *) * (size_t)cnt); g_ro(plist);
                    char *out = NULL; uint64_t ol = 0;
                    static const int fvs[] = { 0, 1, 0, -1, 0, 2 };
                    int drc = liberasurecode_decode(desc, plist, cnt, s.flen, fvs[e % 6], &out, &ol);
                    mon_count("evaluations", 1); mon_count("guarded_decodes", 1);
                    if (drc == 0) { if (ol != len || (len && memcmp(out, src, len))) mon_viol("C15", "decode-wrong-bytes", "decode on guarded inputs (%s) returned wrong bytes", place_name[place]); liberasurecode_decode_cleanup(desc, out); }
                    else if (req) mon_viol("C15", "decode-failed", "decode on guarded inputs (%s) returned %d", place_name[place], drc);
                    /* reconstruct an erased and an available destination */
                    for (int q = 0; q < 2; q++) {
                        int dest = q == 0 ? (sz ? perm[0] : 0) : idx[0];
                        uint8_t *o = malloc(s.flen);
                        int rrc = liberasurecode_reconstruct_fragment(desc, plist, cnt, s.flen, dest, (char *)o);
                        mon_count("evaluations", 1); mon_count("guarded_reconstructs", 1);
                        const uint8_t *want = s.frag[dest];
                        for (int i = 0; i < cnt; i++) if (idx[i] == dest) { want = (const uint8_t *)pr.ptr[i]; break; }   /* a supplied destination comes back as supplied */
                        if (rrc == 0) { if (memcmp(o, want, s.flen)) mon_viol("C15", "reconstruct-wrong-bytes", "reconstruct(dest=%d) on guarded inputs (%s) differs from encode's fragment", dest, place_name[place]); }
                        else if (req) mon_viol("C15", "reconstruct-failed", "reconstruct on guarded inputs returned %d", rrc);
                        free(o);
                    }
                    /* metadata / validation on read-only fragments */
                    for (int i = 0; i < cnt && i < 4; i++) {
                        fragment_metadata_t md;
                        if (liberasurecode_get_fragment_metadata(pr.ptr[i], &md) != 0) mon_viol("C15", "metadata-failed", "get_fragment_metadata failed on a pristine guarded fragment");
                        if (is_invalid_fragment(desc, pr.ptr[i])) mon_viol("C15", "validation-failed", "is_invalid_fragment rejects a pristine guarded fragment");
                        mon_count("evaluations", 2); mon_count("guarded_validations", 2);
                    }
                    if (cnt) { if (liberasurecode_verify_stripe_metadata(desc, plist, cnt) != 0) mon_viol("C15", "stripe-check-failed", "verify_stripe_metadata failed on pristine guarded fragments"); mon_count("evaluations", 1); }
                    /* the metadata query on the same fragments as a host of the other byte order wrote them: read-only, ending
                     * at (or starting behind) an inaccessible page like every other input */
                    for (int i = 0; i < cnt && i < 3 && !oldw && s.flen >= 80; i++) {
                        uint8_t *tw = g_alloc(s.flen, (e + i) & 1 ? G_START : G_END);
                        memcpy(tw, pr.ptr[i], s.flen); ref_hdr_twin((const uint8_t *)pr.ptr[i], tw, 0); g_ro(tw);
                        uint64_t dtw = mon_hash(tw, s.flen, 7);
                        fragment_metadata_t ma, mb; memset(&ma, 0x11, sizeof ma); memset(&mb, 0x22, sizeof mb);
                        int ra = liberasurecode_get_fragment_metadata(pr.ptr[i], &ma), rb = liberasurecode_get_fragment_metadata((char *)tw, &mb);
                        mon_count("evaluations", 1); mon_count("guarded_opposite_endian_queries", 1);
                        if (ra != 0 || rb != 0 || ma.idx != mb.idx || ma.size != mb.size || ma.orig_data_size != mb.orig_data_size || ma.chksum_mismatch != mb.chksum_mismatch || ma.chksum[0] != mb.chksum[0])
                            mon_viol("C15", "opposite-endian-query-differs", "metadata query on a guarded opposite-endian copy of fragment %d: rc %d/%d, idx %u/%u size %u/%u mismatch %d/%d", idx[i], ra, rb, ma.idx, mb.idx, ma.size, mb.size, ma.chksum_mismatch, mb.chksum_mismatch);
                        if (mon_hash(tw, s.flen, 7) != dtw) mon_viol("C15", "input-fragment-modified", "opposite-endian copy of fragment %d changed during the metadata query", idx[i]);
                        g_free(tw);
                    }
                    /* inputs unchanged (they are read-only, so a write would already have faulted) */
                    for (int i = 0; i < cnt; i++) if (mon_hash(pr.ptr[i], s.flen, 7) != dig[i]) { mon_viol("C15", "input-fragment-modified", "fragment %d changed", idx[i]); break; }
                    if (memcmp(plist, pr.ptr, sizeof(char *) * (size_t)cnt)) mon_viol("C15", "input-list-modified", "the caller's array of fragment pointers changed");
                    g_free(plist);
                    pres_free(&pr);
                    /* fragments_needed with read-only index lists ending at a guard page */
                    if (sz) {
                        int *R = g_alloc(sizeof(int) * (size_t)(sz + 1), G_END), *X = g_alloc(sizeof(int), G_END), *N = g_alloc(sizeof(int) * (size_t)(n + 1), G_END);
                        memcpy(R, perm, sizeof(int) * (size_t)sz); R[sz] = -1; X[0] = -1; g_ro(R); g_ro(X);
                        int nrc = liberasurecode_fragments_needed(desc, R, X, N);
                        mon_count("evaluations", 1); mon_count("guarded_needed", 1);
                        if (nrc != 0) mon_viol("C15", "needed-failed", "fragments_needed on guarded lists returned %d", nrc);
                        g_free(R); g_free(X); g_free(N);
                    }
                    mon_distinct("nontrivial", mon_hash_u64(erased * 4u + (uint32_t)place, mon_hash_u64(len, mon_hash_str(ck, 82))));
                }
                /* ---- calls that must be refused (few distinct fragments, repeated until the list is k .. k+m+3 pointers long):
                 *      refused without a write to the inputs or - sanitizer / guard pages - to anything else ---- */
                for (int e = 0; e < (MO.thorough ? 8 : 3) && c.k >= 2 && c.be != EC_BACKEND_NULL; e++) {
                    int distinct = 1 + (int)rng_below(&rc, (uint32_t)(c.k - 1));            /* 1 .. k-1 */
                    if (e == 0) distinct = c.k > 5 ? c.k / 2 : 1;
                    int perm[32]; for (int i = 0; i < n; i++) perm[i] = i;
                    rng_shuffle(&rc, perm, n);
                    int cnt = c.k + (int)rng_below(&rc, (uint32_t)c.m + 4); if (cnt > PRES_MAX - 1) cnt = PRES_MAX - 1;
                    int idx[PRES_MAX]; for (int i = 0; i < cnt; i++) idx[i] = perm[i < distinct ? i : (int)rng_below(&rc, (uint32_t)distinct)];
                    pres_t pr; pres_build(&pr, &s, idx, cnt, e % 2 ? AL_MISALIGNED : AL_ALIGNED, 1 + (e % 3), &rc);
                    uint64_t dig[PRES_MAX]; for (int i = 0; i < cnt; i++) dig[i] = mon_hash(pr.ptr[i], s.flen, 7);
                    char *out = NULL; uint64_t ol = 0;
                    int drc = liberasurecode_decode(desc, pr.ptr, cnt, s.flen, e & 1, &out, &ol);
                    mon_count("evaluations", 1); mon_count("guarded_refused_calls", 1);
                    if (drc == 0) { if (ol != len || (len && memcmp(out, src, len))) mon_viol("C15", "decode-wrong-bytes", "decode of %d copies of %d distinct fragments (k=%d) returned 0 with wrong bytes", cnt, distinct, c.k); liberasurecode_decode_cleanup(desc, out); }
                    uint8_t *o = malloc(s.flen);
                    int rrc = liberasurecode_reconstruct_fragment(desc, pr.ptr, cnt, s.flen, perm[distinct], (char *)o);
                    mon_count("evaluations", 1); mon_count("guarded_refused_calls", 1);
                    if (rrc == 0 && memcmp(o, s.frag[perm[distinct]], s.flen)) mon_viol("C15", "reconstruct-wrong-bytes", "reconstruct from %d copies of %d distinct fragments (k=%d) returned 0 with wrong bytes", cnt, distinct, c.k);
                    free(o);
                    for (int i = 0; i < cnt; i++) if (mon_hash(pr.ptr[i], s.flen, 7) != dig[i]) { mon_viol("C15", "input-fragment-modified", "fragment %d changed during a refused call", idx[i]); break; }
                    /* and an ordinary call right afterwards still works on the same fragments */
                    { int id2[PRES_MAX]; int c2 = list_of(full, n, id2); pres_t p2; pres_build(&p2, &s, id2, c2, AL_ALIGNED, 2, &rc);
                      char *o2 = NULL; uint64_t l2 = 0; int d2 = liberasurecode_decode(desc, p2.ptr, c2, s.flen, 1, &o2, &l2);
                      if (d2 != 0 || l2 != len || (len && memcmp(o2, src, len))) mon_viol("C15", "decode-failed", "decode of the whole stripe after a refused call: rc=%d", d2);
                      if (d2 == 0) liberasurecode_decode_cleanup(desc, o2); pres_free(&p2); mon_count("evaluations", 1); }
                    pres_free(&pr);
                }
                /* ---- history independence ---- */
                int nh = MO.thorough ? 6 : 3;
                for (int hI = 0; hI < nh; hI++) {
                    int other = -1; cfg_t oc = { EC_BACKEND_LIBERASURECODE_RS_VAND, 3 + hI, 2, 2, 0, CHKSUM_CRC32 };
                    if (hI & 1) other = lec_create(&oc);        /* another instance alive during the re-encode */
                    if (hI % 3 == 2) {
                        /* a second instance of this very configuration comes and goes while instances of other shapes of the same
                         * backend are created: what instances of one shape may share must survive the departure of one of them */
                        int twin = lec_create(&c);
                        cfg_t o2 = c; o2.k = c.k > 2 ? c.k - 1 : c.k + 1; o2.m = c.m + (c.be == EC_BACKEND_FLAT_XOR_HD ? 0 : 3); if (o2.k + o2.m > 32) o2.m = 32 - o2.k;
                        cfg_t o3 = { EC_BACKEND_LIBERASURECODE_RS_VAND, 3, 5, 5, 0, CHKSUM_NONE };
                        int x2 = c.be == EC_BACKEND_FLAT_XOR_HD ? -1 : lec_create(&o2), x3 = lec_create(&o3);
                        if (twin > 0) liberasurecode_instance_destroy(twin);
                        cfg_t o4 = { c.be == EC_BACKEND_FLAT_XOR_HD ? EC_BACKEND_LIBERASURECODE_RS_VAND : c.be, 2, 10, 10, 0, CHKSUM_NONE };
                        int x4 = lec_create(&o4);
                        if (x2 > 0) liberasurecode_instance_destroy(x2);
                        if (x3 > 0) liberasurecode_instance_destroy(x3);
                        if (x4 > 0) liberasurecode_instance_destroy(x4);
                        cfg_use(&c);
                        mon_count("reencodes_after_a_twin_instance_left", 1);
                    }
                    noise(&rc, 6 + hI * 5);
                    stripe_t s2;
                    snprintf(what, sizeof what, "re-encode after unrelated history #%d%s", hI, other > 0 ? " with another instance alive" : "");
                    if (encode_guarded(&c, desc, src, len, G_END, &s2, what) == 0) {
                        mon_count("reencodes_after_history", 1);
                        if (s2.flen != s.flen) mon_viol("C15", "history-dependent-length", "%s", what);
                        else for (int f = 0; f < n; f++) if (memcmp(s2.frag[f], s.frag[f], s.flen)) { mon_viol("C15", "history-dependent-output", "%s: fragment %d differs from the first encode", what, f); break; }
                        stripe_free(&s2);
                    }
                    if (other > 0) liberasurecode_instance_destroy(other);
                    mon_distinct("nontrivial", mon_hash_u64((uint64_t)hI + 900, mon_hash_u64(len, mon_hash_str(ck, 83))));
                }
                if (li == 1 && ci % 31 == 0) mon_sample("{\"config\":\"%s\",\"len\":%llu,\"input_placements\":[\"slack16\",\"end-pinned\",\"start-pinned\"],\"erasure_sets\":%d,\"reencodes_after_history\":%d}", ck, (unsigned long long)len, nsets, nh);
                s.data = NULL; stripe_free(&s);
            }
            free(src);
            mon_end();
        }
        if (mon_case_all("%s|destroy", ck)) { liberasurecode_instance_destroy(desc); mon_end(); }
    }
}

/* ---- every flat-XOR failure pattern on write-protected inputs: all erasure sets |E|<hd of all 38
 * tables; fragments guarded once per stripe (read-only, end-pinned against a guard page); payload sizes
 * chosen so that one stripe is 16-byte aligned (the backend reads and XORs the caller's buffers in
 * place) and one is not (the front end copies) ---- */
static void run_pure_xor_exhaustive(void)
{
    static cfg_t cfgs[64]; int nc = cfgs_xor(cfgs, 64);
    for (int ci = 0; ci < nc; ci++) {
        cfg_t c = cfgs[ci]; c.ct = (ci & 1) ? CHKSUM_NONE : CHKSUM_CRC32;
        char ck[96]; cfg_key(&c, ck, sizeof ck);
        int n = c.k + c.m;
        uint32_t full = (1u << n) - 1;
        for (int variant = 0; variant < 2; variant++) {
            uint64_t payload = variant == 0 ? 48 : 36;            /* 80+48 = 128 (aligned when end-pinned); 80+36 = 116 (misaligned) */
            uint64_t len = payload * (uint64_t)c.k - (variant ? 2 : 0);
            int desc = -1; stripe_t s; int ok = 0; uint8_t *src = NULL; uint8_t *gf[32] = {0};
            if (mon_case_all("%s|xor-exhaustive|payload=%llu|setup", ck, (unsigned long long)payload)) {
                desc = lec_create(&c);
                if (desc > 0) {
                    rng_t r; rng_seed(&r, MO.seed, mon_hash_str(ck, payload));
                    src = malloc(len); rng_fill(&r, src, len);
                    if (stripe_make(&s, desc, &c, src, len) == 0) {
                        ok = 1;
                        for (int i = 0; i < n; i++) { gf[i] = g_alloc(s.flen, G_END); memcpy(gf[i], s.frag[i], s.flen); g_ro(gf[i]); }
                    } else mon_viol("C15", "encode-failed", "setup encode failed");
                } else mon_viol("C15", "create-failed", "rc=%d", desc);
                mon_end();
            }
            if (ok) {
                for (int sz = 1; sz < c.hd; sz++) {
                    int cb[32]; comb_first(cb, sz);
                    do {
                        uint32_t er = mask_of(cb, sz);
                        char em[96]; mask_str(er, n, em, sizeof em);
                        if (!mon_case("%s|xor-exhaustive|payload=%llu|E=%s", ck, (unsigned long long)payload, em)) continue;
                        char *lst[32]; int cnt = 0;
                        for (int i = 0; i < n; i++) if (!((er >> i) & 1)) lst[cnt++] = (char *)gf[i];
                        char *out = NULL; uint64_t ol = 0;
                        int rc = liberasurecode_decode(desc, lst, cnt, s.flen, 0, &out, &ol);
                        mon_count("evaluations", 1); mon_count("guarded_decodes", 1);
                        if (rc != 0) mon_viol("C15", "decode-failed", "decode of write-protected fragments returned %d", rc);
                        else { if (ol != len || memcmp(out, src, len)) mon_viol("C15", "decode-wrong-bytes", "decode of write-protected fragments returned wrong bytes"); liberasurecode_decode_cleanup(desc, out); }
                        uint8_t *o = malloc(s.flen);
                        for (int i = 0; i < sz; i++) {
                            rc = liberasurecode_reconstruct_fragment(desc, lst, cnt, s.flen, cb[i], (char *)o);
                            mon_count("evaluations", 1); mon_count("guarded_reconstructs", 1);
                            if (rc != 0 || memcmp(o, s.frag[cb[i]], s.flen)) mon_viol("C15", "reconstruct-wrong", "reconstruct(dest=%d) on write-protected fragments: rc=%d or bytes differ", cb[i], rc);
                        }
                        free(o);
                        for (int i = 0; i < n; i++) if (memcmp(gf[i], s.frag[i], s.flen)) { mon_viol("C15", "input-fragment-modified", "fragment %d changed", i); break; }
                        mon_distinct("nontrivial", mon_hash_u64(er * 2u + (uint32_t)variant, mon_hash_str(ck, 85)));
                        mon_count("xor_exhaustive_sets", 1);
                        mon_end();
                    } while (comb_next(cb, sz, n));
                }
                (void)full;
            }
            if (mon_case_all("%s|xor-exhaustive|payload=%llu|teardown", ck, (unsigned long long)payload)) {
                for (int i = 0; i < n; i++) if (gf[i]) g_free(gf[i]);
                if (ok) { s.data = NULL; stripe_free(&s); }
                free(src);
                if (desc > 0) liberasurecode_instance_destroy(desc);
                mon_end();
            }
        }
    }
}

/* ---- fragments of ANOTHER stripe layout of the same object in the list: an instance of the same backend with a smaller k
 * wrote them, so they are genuine, sealed fragments with a LARGER payload than this stripe's.  Every fragment sits in a
 * read-only mapping pinned against an inaccessible page, the stripe's own ones exactly fragment_len long (the foreign one as
 * long as it really is, i.e. longer): whatever decode / reconstruct answer, they read no byte behind fragment_len of any
 * fragment and modify none. ---- */
static void run_foreign_layout(void)
{
    static const int shp[][4] = { {2, 1, 4, 2}, {3, 2, 6, 3}, {1, 1, 4, 2}, {5, 5, 10, 5}, {6, 6, 12, 6} };
    static const int bes[] = { EC_BACKEND_LIBERASURECODE_RS_VAND, EC_BACKEND_FLAT_XOR_HD, EC_BACKEND_ISA_L_RS_VAND, EC_BACKEND_JERASURE_RS_VAND };
    for (size_t bi = 0; bi < 4; bi++) for (size_t si = 0; si < 5; si++) for (int pos = 0; pos < 3; pos++) for (int force = 0; force < 2; force++) {
        int be = bes[bi]; if (!liberasurecode_backend_available((ec_backend_id_t)be)) continue;
        if ((be == EC_BACKEND_FLAT_XOR_HD) != (si >= 3)) continue;
        if (!mon_case("%s|foreign-layout-fragment|writer=(%d,%d)|reader=(%d,%d)|pos=%d|force=%d", be_name(be), shp[si][0], shp[si][1], shp[si][2], shp[si][3], pos, force)) continue;
        int xhd = si == 3 ? 3 : 4;
        cfg_t ca = { be, shp[si][0], shp[si][1], be == EC_BACKEND_FLAT_XOR_HD ? xhd : shp[si][1], 0, CHKSUM_CRC32 }, cb = { be, shp[si][2], shp[si][3], be == EC_BACKEND_FLAT_XOR_HD ? xhd : shp[si][3], 0, CHKSUM_CRC32 };
        uint64_t len = 4096; uint8_t *src = malloc(len); rng_t r; rng_seed(&r, MO.seed, 6100 + bi * 8 + si); rng_fill(&r, src, len);
        int da = lec_create(&ca), db = lec_create(&cb); stripe_t A, B; int okA = 0, okB = 0;
        if (da > 0 && db > 0) { cfg_use(&ca); okA = stripe_make(&A, da, &ca, src, len) == 0; cfg_use(&cb); okB = stripe_make(&B, db, &cb, src, len) == 0; }
        if (!okA || !okB || A.flen <= B.flen) { mon_viol("C15", "setup-failed", "create/encode failed (%d %d) or the writer's fragments are not longer", da, db); }
        else {
            /* the reader's data fragments; index 0 comes from the writer's layout */
            char *lst[40]; uint8_t *g[40]; const uint8_t *orig[40]; uint64_t gl[40]; int cnt = 0;
            for (int i = 0; i < cb.k + 1 && i < B.n; i++) { orig[cnt] = i == 0 ? A.frag[0] : B.frag[i]; gl[cnt] = i == 0 ? A.flen : B.flen; g[cnt] = g_alloc(gl[cnt], G_END); memcpy(g[cnt], orig[cnt], gl[cnt]); g_ro(g[cnt]); lst[cnt] = (char *)g[cnt]; cnt++; }
            if (pos == 1) { char *t = lst[0]; lst[0] = lst[cnt - 1]; lst[cnt - 1] = t; } else if (pos == 2) { char *t = lst[0]; lst[0] = lst[cnt / 2]; lst[cnt / 2] = t; }
            char *out = NULL; uint64_t ol = 0;
            int rc = liberasurecode_decode(db, lst, cnt - 1 + (pos == 1), B.flen, force, &out, &ol);     /* (with and without the k+1st entry) */
            mon_count("evaluations", 3); mon_count("foreign_layout_lists", 1);
            if (rc == 0) liberasurecode_decode_cleanup(db, out); else if (rc > 0) mon_viol("C15", "positive-rc", "decode returned %d", rc);
            rc = liberasurecode_decode(db, lst, cnt, B.flen, force, &out, &ol);
            if (rc == 0) liberasurecode_decode_cleanup(db, out);
            uint8_t *of = malloc(B.flen); rc = liberasurecode_reconstruct_fragment(db, lst, cnt, B.flen, B.n - 1, (char *)of);
            if (rc > 0) mon_viol("C15", "positive-rc", "reconstruct returned %d", rc);
            free(of);
            for (int i = 0; i < cnt; i++) if (memcmp(g[i], orig[i], gl[i])) { mon_viol("C15", "input-fragment-modified", "fragment at list position %d changed", i); break; }
            for (int i = 0; i < cnt; i++) g_free(g[i]);
        }
        if (okA) { A.data = NULL; stripe_free(&A); } if (okB) { B.data = NULL; stripe_free(&B); }
        if (da > 0) liberasurecode_instance_destroy(da); if (db > 0) liberasurecode_instance_destroy(db);
        free(src);
        mon_distinct("nontrivial", mon_hash_u64((uint64_t)(bi * 64 + si * 8) + (uint64_t)(pos * 2 + force), 75));
        mon_end();
    }
}

/* ---- threads: the same (config, data) encoded on 8 threads gives the reference bytes ---- */
typedef struct { cfg_t c; int desc; const uint8_t *src; uint64_t len; int iters; int bad; uint8_t **exp; uint64_t ef; } targ_t;
static void *tmain(void *a)
{
    targ_t *t = a;
    for (int i = 0; i < t->iters; i++) {
        stripe_t s;
        if (stripe_make(&s, t->desc, &t->c, t->src, t->len) != 0) { t->bad |= 1; continue; }
        if (s.flen != t->ef) t->bad |= 2;
        else for (int f = 0; f < s.n; f++) if (memcmp(s.frag[f], t->exp[f], t->ef)) { t->bad |= 4; break; }
        stripe_free(&s);
    }
    return NULL;
}

static void run_threads(void)
{
    static cfg_t cfgs[1200];
    int nc = all_cfgs(cfgs, 1200);
    for (int ci = 0; ci < nc; ci++) {
        if (!MO.thorough && ci % 4 != (int)(MO.seed % 4)) continue;
        cfg_t c = cfgs[ci]; c.ct = CHKSUM_CRC32;
        char ck[96]; cfg_key(&c, ck, sizeof ck);
        if (!mon_case("%s|8-threads-encode", ck)) continue;
        int desc = lec_create(&c);
        if (desc <= 0) { mon_viol("C15", "create-failed", "rc=%d", desc); mon_end(); continue; }
        rng_t r; rng_case(&r);
        uint64_t len = 1 + rng_below(&r, 5000);
        uint8_t *src = malloc(len); rng_fill(&r, src, len);
        uint64_t ef = model_fragment_len(&c, len);
        uint8_t *exp[64]; for (int f = 0; f < c.k + c.m; f++) exp[f] = malloc(ef);
        model_stripe(&c, src, len, 0, exp);
        pthread_t th[8]; targ_t ta[8];
        for (int t = 0; t < 8; t++) { ta[t] = (targ_t){ c, desc, src, len, 6, 0, exp, ef }; pthread_create(&th[t], NULL, tmain, &ta[t]); }
        for (int t = 0; t < 8; t++) { pthread_join(th[t], NULL); mon_count("evaluations", 6); mon_count("threaded_encodes", 6);
            if (ta[t].bad) mon_viol("C15", "thread-dependent-output", "thread %d: encode result differs from the reference (flags %d)", t, ta[t].bad); }
        for (int f = 0; f < c.k + c.m; f++) free(exp[f]);
        free(src);
        liberasurecode_instance_destroy(desc);
        mon_distinct("nontrivial", mon_hash_str(ck, 84));
        mon_end();
    }
}

int main(int argc, char **argv)
{
    mon_init(argc, argv);
    LEC_PROP = MO.prop;
    isal_ok = liberasurecode_backend_available(EC_BACKEND_ISA_L_RS_VAND);
    if (!strcmp(MO.mode, "threads")) run_threads(); else { run_pure(); run_pure_xor_exhaustive(); run_foreign_layout(); }
    mon_finish();
    return 0;
}
