#include "lec.h"
#include "erasurecode_backend.h"
#include <stdio.h>
#include <stdlib.h>
#include <string.h>

extern struct ec_backend_common backend_null, backend_flat_xor_hd, backend_isa_l_rs_vand,
       backend_liberasurecode_rs_vand, backend_isa_l_rs_cauchy, backend_shss, backend_jerasure_rs_vand, backend_jerasure_rs_cauchy, backend_libphazr;

const char *be_name(int be)
{
    switch (be) {
    case EC_BACKEND_NULL: return "null";
    case EC_BACKEND_FLAT_XOR_HD: return "flat_xor_hd";
    case EC_BACKEND_ISA_L_RS_VAND: return "isa_l_rs_vand";
    case EC_BACKEND_LIBERASURECODE_RS_VAND: return "rs_vand";
    case EC_BACKEND_ISA_L_RS_CAUCHY: return "isa_l_rs_cauchy";
    case EC_BACKEND_JERASURE_RS_VAND: return "jerasure_rs_vand";
    case EC_BACKEND_JERASURE_RS_CAUCHY: return "jerasure_rs_cauchy";
    case EC_BACKEND_SHSS: return "shss";
    case EC_BACKEND_LIBPHAZR: return "libphazr";
    }
    return "be?";
}

uint32_t lec_backend_version(int be)
{
    switch (be) {
    case EC_BACKEND_NULL: return backend_null.ec_backend_version;
    case EC_BACKEND_FLAT_XOR_HD: return backend_flat_xor_hd.ec_backend_version;
    case EC_BACKEND_ISA_L_RS_VAND: return backend_isa_l_rs_vand.ec_backend_version;
    case EC_BACKEND_LIBERASURECODE_RS_VAND: return backend_liberasurecode_rs_vand.ec_backend_version;
    case EC_BACKEND_ISA_L_RS_CAUCHY: return backend_isa_l_rs_cauchy.ec_backend_version;
    case EC_BACKEND_SHSS: return backend_shss.ec_backend_version;
    case EC_BACKEND_JERASURE_RS_VAND: return backend_jerasure_rs_vand.ec_backend_version;
    case EC_BACKEND_JERASURE_RS_CAUCHY: return backend_jerasure_rs_cauchy.ec_backend_version;
    case EC_BACKEND_LIBPHAZR: return backend_libphazr.ec_backend_version;
    }
    return 0;
}

int cfg_n(const cfg_t *c) { return c->k + c->m; }
int cfg_is_rs(const cfg_t *c) { return c->be != EC_BACKEND_FLAT_XOR_HD && c->be != EC_BACKEND_NULL; }
int cfg_tol(const cfg_t *c) { return c->be == EC_BACKEND_FLAT_XOR_HD ? c->hd - 1 : c->m; }

void cfg_key(const cfg_t *c, char *buf, size_t n)
{
    if (c->w) snprintf(buf, n, "%s|k=%d,m=%d,hd=%d,w=%d,ct=%d", be_name(c->be), c->k, c->m, c->hd, c->w, c->ct);
    else snprintf(buf, n, "%s|k=%d,m=%d,hd=%d,ct=%d", be_name(c->be), c->k, c->m, c->hd, c->ct);
}

static void cfg_use_phazr(const cfg_t *c)
{
    int v = c->w > 0 ? c->w : 0, h = c->hd > 0 ? c->hd : 0;
    if (__atomic_load_n(&ref_isal_word_bits, __ATOMIC_RELAXED) != v) __atomic_store_n(&ref_isal_word_bits, v, __ATOMIC_RELAXED);
    if (__atomic_load_n(&ref_phazr_hd, __ATOMIC_RELAXED) != h) __atomic_store_n(&ref_phazr_hd, h, __ATOMIC_RELAXED);
}

void cfg_use(const cfg_t *c)
{
    /* the size models follow the configuration being worked on */
    /* relaxed atomics, written only when the value changes: monitor state shared by the worker threads of the
     * concurrency driver (which all use w = 0) must not look like a race of the code under test */
    if (c->be == EC_BACKEND_ISA_L_RS_VAND || c->be == EC_BACKEND_ISA_L_RS_CAUCHY) {
        int v = (c->w == 16 || c->w == 32) ? c->w : 0;
        if (__atomic_load_n(&ref_isal_word_bits, __ATOMIC_RELAXED) != v) __atomic_store_n(&ref_isal_word_bits, v, __ATOMIC_RELAXED);
    }
    if (c->be == EC_BACKEND_LIBPHAZR) cfg_use_phazr(c);
    if (c->be == EC_BACKEND_JERASURE_RS_VAND || c->be == EC_BACKEND_JERASURE_RS_CAUCHY) {
        int v = c->w > 0 ? c->w : 0;
        if (__atomic_load_n(&ref_isal_word_bits, __ATOMIC_RELAXED) != v) __atomic_store_n(&ref_isal_word_bits, v, __ATOMIC_RELAXED);
    }
}

int cfg_jer_w(const cfg_t *c) { return c->w > 0 ? c->w : c->be == EC_BACKEND_JERASURE_RS_VAND ? 16 : 4; }

int lec_create(const cfg_t *c)
{
    struct ec_args a;
    memset(&a, 0, sizeof a);
    a.k = c->k; a.m = c->m; a.hd = c->hd; a.w = c->w; a.ct = c->ct;
    cfg_use(c);
    return liberasurecode_instance_create((ec_backend_id_t)c->be, &a);
}

/* ------------- configuration sets ------------- */
int cfgs_rs(cfg_t *out, int max, int be, int thorough, uint64_t seed)
{
    int n = 0;
    if (thorough) {
        for (int k = 1; k <= 31; k++)
            for (int m = 1; k + m <= 32; m++)
                if (n < max) out[n++] = (cfg_t){ be, k, m, m, 0, CHKSUM_CRC32 };
        goto explicit_w;
    }
    static const int fixed[][2] = {
        {1,1},{1,2},{2,1},{2,2},{3,2},{3,3},{4,2},{5,3},{6,3},{10,4},{12,3},{8,4},{4,4},{2,6},
        {31,1},{1,31},{16,16},{28,4},{20,12},{30,2},{15,6}
    };
    for (size_t i = 0; i < sizeof fixed / sizeof fixed[0] && n < max; i++)
        out[n++] = (cfg_t){ be, fixed[i][0], fixed[i][1], fixed[i][1], 0, CHKSUM_CRC32 };
    rng_t r; rng_seed(&r, seed, 0xc0f1);
    for (int i = 0; i < 5 && n < max; i++) {
        int k = 1 + (int)rng_below(&r, 31);
        int m = 1 + (int)rng_below(&r, (uint32_t)(32 - k));
        /* hd is documented as meaningful for flat-XOR only: RS-style backends must not care what it is */
        static const int odd_hd[] = { 0, 1, 99, -3, 31 };
        out[n++] = (cfg_t){ be, k, m, i < 2 ? m : odd_hd[i], 0, CHKSUM_CRC32 };
    }
explicit_w:
    if (be == EC_BACKEND_LIBERASURECODE_RS_VAND) {
        /* the built-in code works on 16-bit words whatever `w` the caller passes (the argument is documented as optional
         * and this backend ignores it): same fragments as with w = 0 */
        static const int ws[][3] = { {4, 2, 8}, {10, 4, 32}, {5, 3, 7}, {3, 3, 64}, {2, 2, -5}, {7, 2, 16}, {1, 2, 8} };
        for (size_t i = 0; i < sizeof ws / sizeof ws[0] && n < max; i++) out[n++] = (cfg_t){ be, ws[i][0], ws[i][1], ws[i][1], ws[i][2], CHKSUM_CRC32 };
    }
    if (be == EC_BACKEND_ISA_L_RS_VAND || be == EC_BACKEND_ISA_L_RS_CAUCHY) {
        /* legal explicit word sizes: 8 (same as default), 16 and 32 (coarser padding unit, same GF(2^8) code) */
        static const int ws[][3] = { {4, 2, 8}, {4, 2, 16}, {5, 3, 32}, {10, 4, 16}, {3, 5, 32}, {1, 1, 16} };
        for (size_t i = 0; i < sizeof ws / sizeof ws[0] && n < max; i++) out[n++] = (cfg_t){ be, ws[i][0], ws[i][1], ws[i][1], ws[i][2], CHKSUM_CRC32 };
    }
    return n;
}

int cfgs_shss(cfg_t *out, int max)
{
    /* shapes for the backend with per-fragment backend metadata (stand-in libshss, see shss_ref/) */
    static const int sh[][2] = { {4, 2}, {10, 4}, {1, 1}, {3, 3}, {2, 5}, {6, 3}, {20, 4} };
    int n = 0;
    if (!liberasurecode_backend_available(EC_BACKEND_SHSS)) return 0;
    for (size_t i = 0; i < sizeof sh / sizeof sh[0] && n < max; i++) out[n++] = (cfg_t){ EC_BACKEND_SHSS, sh[i][0], sh[i][1], sh[i][1], 0, CHKSUM_CRC32 };
    return n;
}

int cfgs_phazr(cfg_t *out, int max)
{
    /* the libphazr adapter on the verif-owned stand-in (phazr_ref/): per-fragment backend metadata of
     * ceil(P/(w/8-hd))*(w/8)-P bytes and plain data placed at that offset before the backend encodes.  {k, m, hd, w} */
    static const int sh[][4] = { {4, 2, 1, 0}, {10, 4, 1, 0}, {3, 3, 3, 0}, {1, 1, 0, 0}, {2, 5, 5, 64}, {6, 3, 1, 32}, {5, 2, 2, 64}, {4, 7, 7, 0} };
    int n = 0;
    if (!liberasurecode_backend_available(EC_BACKEND_LIBPHAZR)) return 0;
    for (size_t i = 0; i < sizeof sh / sizeof sh[0] && n < max; i++) out[n++] = (cfg_t){ EC_BACKEND_LIBPHAZR, sh[i][0], sh[i][1], sh[i][2], sh[i][3], CHKSUM_CRC32 };
    return n;
}

int cfgs_jer(cfg_t *out, int max)
{
    /* the two libJerasure adapters on the verif-owned stand-in (jer_ref/): word code over GF(2^8/16/32), bit-matrix code over
     * GF(2^4/8) whose fragments are whole stretches of w packets of sizeof(long)*128 bytes */
    static const int vd[][3] = { {4, 2, 0}, {10, 4, 16}, {3, 3, 8}, {2, 1, 32}, {1, 2, 8}, {6, 5, 0} };
    static const int cy[][3] = { {4, 2, 0}, {3, 2, 8}, {5, 3, 4}, {1, 1, 0}, {2, 3, 4} };
    int n = 0;
    if (liberasurecode_backend_available(EC_BACKEND_JERASURE_RS_VAND))
        for (size_t i = 0; i < sizeof vd / sizeof vd[0] && n < max; i++) out[n++] = (cfg_t){ EC_BACKEND_JERASURE_RS_VAND, vd[i][0], vd[i][1], vd[i][1], vd[i][2], CHKSUM_CRC32 };
    if (liberasurecode_backend_available(EC_BACKEND_JERASURE_RS_CAUCHY))
        for (size_t i = 0; i < sizeof cy / sizeof cy[0] && n < max; i++) out[n++] = (cfg_t){ EC_BACKEND_JERASURE_RS_CAUCHY, cy[i][0], cy[i][1], cy[i][1], cy[i][2], CHKSUM_CRC32 };
    return n;
}

int cfgs_xor(cfg_t *out, int max)
{
    int n = 0;
    for (int i = 0; i < xor_ntables && n < max; i++)
        out[n++] = (cfg_t){ EC_BACKEND_FLAT_XOR_HD, xor_tables[i].k, xor_tables[i].m, xor_tables[i].hd, 0, CHKSUM_CRC32 };
    /* flat-XOR always pads to 32-bit words: an explicit word size must not change anything */
    static const int xw[][4] = { {10, 5, 3, 8}, {6, 6, 4, 16}, {10, 5, 4, 64}, {3, 3, 3, -1}, {12, 6, 4, 7} };
    for (size_t i = 0; i < sizeof xw / sizeof xw[0] && n < max; i++)
        if (xor_find(xw[i][0], xw[i][1], xw[i][2])) out[n++] = (cfg_t){ EC_BACKEND_FLAT_XOR_HD, xw[i][0], xw[i][1], xw[i][2], xw[i][3], CHKSUM_CRC32 };
    return n;
}

/* ------------- code / rank oracle ------------- */
void code_init(code_t *cd, const cfg_t *c)
{
    memset(cd, 0, sizeof *cd);
    cd->be = c->be; cd->k = c->k; cd->m = c->m; cd->n = c->k + c->m;
    switch (c->be) {
    case EC_BACKEND_LIBERASURECODE_RS_VAND: rs_generator(c->k, c->m, cd->g16); break;
    case EC_BACKEND_ISA_L_RS_VAND: isal_vand_generator(c->k, c->m, cd->g8); break;
    case EC_BACKEND_ISA_L_RS_CAUCHY: case EC_BACKEND_SHSS: case EC_BACKEND_LIBPHAZR: isal_cauchy_generator(c->k, c->m, cd->g8); break;   /* the stand-in libshss is the same Cauchy code */
    case EC_BACKEND_FLAT_XOR_HD:
        cd->xt = xor_find(c->k, c->m, c->hd);
        if (cd->xt) xor_rows(cd->xt, cd->x);
        break;
    case EC_BACKEND_JERASURE_RS_VAND: case EC_BACKEND_JERASURE_RS_CAUCHY: cd->mds = 1; break;
    }
}

int code_rank(const code_t *cd, const int *rows, int nrows)
{
    if (cd->mds) { uint64_t seen = 0; int d = 0; for (int i = 0; i < nrows; i++) if (!(seen >> rows[i] & 1)) { seen |= 1ull << rows[i]; d++; } return d < cd->k ? d : cd->k; }
    switch (cd->be) {
    case EC_BACKEND_LIBERASURECODE_RS_VAND: return gf16_rank(cd->g16, cd->k, rows, nrows);
    case EC_BACKEND_ISA_L_RS_VAND: case EC_BACKEND_ISA_L_RS_CAUCHY: case EC_BACKEND_SHSS: case EC_BACKEND_LIBPHAZR: return gf8_rank(cd->g8, cd->k, rows, nrows);
    case EC_BACKEND_FLAT_XOR_HD: return gf2_rank(cd->x, rows, nrows);
    }
    return 0;
}

int code_spans(const code_t *cd, const int *sel, int nsel, int target)
{
    if (cd->be == EC_BACKEND_FLAT_XOR_HD) return gf2_in_span(cd->x, sel, nsel, cd->x[target]);
    int rows[65];
    memcpy(rows, sel, sizeof(int) * (size_t)nsel);
    int r0 = code_rank(cd, rows, nsel);
    rows[nsel] = target;
    return code_rank(cd, rows, nsel + 1) == r0;
}

int code_firstk_invertible(const code_t *cd, uint32_t present)
{
    int rows[32], j = 0;
    for (int i = 0; i < cd->n && j < cd->k; i++) if (present >> i & 1) rows[j++] = i;
    if (j < cd->k) return 0;
    return code_rank(cd, rows, cd->k) == cd->k;
}

/* ------------- stripes ------------- */
int stripe_make(stripe_t *s, int desc, const cfg_t *c, const uint8_t *data, uint64_t len)
{
    memset(s, 0, sizeof *s);
    s->c = *c; s->desc = desc; s->data = (uint8_t *)data; s->len = len; s->n = c->k + c->m;
    char **ed = NULL, **ep = NULL; uint64_t flen = 0;
    int rc = liberasurecode_encode(desc, (const char *)data, len, &ed, &ep, &flen);
    if (rc != 0) return rc;
    s->flen = flen;
    s->frag = calloc((size_t)s->n, sizeof(uint8_t *));
    for (int i = 0; i < s->n; i++) {
        void *b = NULL;
        if (posix_memalign(&b, 16, flen ? flen : 16)) abort();
        memcpy(b, i < c->k ? ed[i] : ep[i - c->k], flen);
        s->frag[i] = b;
    }
    liberasurecode_encode_cleanup(desc, ed, ep);
    return 0;
}

void stripe_free(stripe_t *s)
{
    if (s->frag) { for (int i = 0; i < s->n; i++) free(s->frag[i]); free(s->frag); }
    s->frag = NULL;
}

/* ------------- expected fragments ------------- */
uint64_t model_fragment_len(const cfg_t *c, uint64_t len)
{
    uint64_t P = ref_payload_size(c->be, c->k, len);
    return P + ref_backend_metadata_bytes(c->be, P) + REF_HDR_LEN;
}

void model_fragment_header(const cfg_t *c, uint64_t len, int idx, const uint8_t *payload, int legacy, uint8_t out[80])
{
    ref_hdr_t h;
    memset(&h, 0, sizeof h);
    uint64_t P = ref_payload_size(c->be, c->k, len);
    h.idx = (uint32_t)idx; h.size = (uint32_t)P; h.bms = (uint32_t)ref_backend_metadata_bytes(c->be, P); h.orig = len;
    h.ct = (uint8_t)c->ct;
    if ((uint8_t)c->ct == CHKSUM_CRC32) h.chksum[0] = legacy ? crc_legacy(payload, P) : crc_std(payload, P);     /* the header keeps the low byte of the type */
    h.mismatch = 0; h.beid = (uint8_t)c->be; h.bever = lec_backend_version(c->be);
    h.magic = REF_MAGIC; h.libver = liberasurecode_get_version();
    ref_hdr_write(out, &h, legacy);
}

void model_stripe(const cfg_t *c, const uint8_t *data, uint64_t len, int legacy, uint8_t **out)
{
    int k = c->k, m = c->m;
    uint64_t P = ref_payload_size(c->be, k, len);
    const uint8_t *dp[32];
    for (int i = 0; i < k; i++) {
        uint8_t *pl = out[i] + REF_HDR_LEN;
        memset(pl, 0, P);
        uint64_t off = (uint64_t)i * P;
        if (off < len) memcpy(pl, data + off, (len - off) < P ? (len - off) : P);
        dp[i] = pl;
    }
    code_t cd;
    if (c->be == EC_BACKEND_ISA_L_RS_VAND || c->be == EC_BACKEND_ISA_L_RS_CAUCHY || c->be == EC_BACKEND_FLAT_XOR_HD || c->be == EC_BACKEND_SHSS || c->be == EC_BACKEND_LIBPHAZR)
        code_init(&cd, c);
    for (int j = 0; j < m; j++) {
        uint8_t *pl = out[k + j] + REF_HDR_LEN;
        switch (c->be) {
        case EC_BACKEND_LIBERASURECODE_RS_VAND: rs_model_parity(k, m, dp, P, k + j, pl); break;
        case EC_BACKEND_ISA_L_RS_VAND: case EC_BACKEND_ISA_L_RS_CAUCHY: case EC_BACKEND_SHSS: case EC_BACKEND_LIBPHAZR: gf8_model_parity(cd.g8, k, dp, P, k + j, pl); break;
        case EC_BACKEND_FLAT_XOR_HD: xor_model_parity(cd.xt, dp, P, j, pl); break;
        case EC_BACKEND_JERASURE_RS_VAND: jer_vand_model_parity(k, m, cfg_jer_w(c), dp, P, k + j, pl); break;
        case EC_BACKEND_JERASURE_RS_CAUCHY: jer_cauchy_model_parity(k, m, cfg_jer_w(c), 1024, dp, P, k + j, pl); break;
        default: memset(pl, 0, P);
        }
    }
    /* backend-owned trailer behind the payload (stand-in libshss: 0x5A ^ 7*index ^ byte number) */
    for (int i = 0; i < k + m && c->be == EC_BACKEND_SHSS; i++)
        for (int b = 0; b < 32; b++) out[i][REF_HDR_LEN + P + (uint64_t)b] = (uint8_t)(0x5A ^ (i * 7) ^ b);
    /* stand-in libphazr: tail of ref_backend_metadata_bytes(P) bytes, 0xC3 ^ 5*index ^ 3*byte number */
    if (c->be == EC_BACKEND_LIBPHAZR) { uint64_t t = ref_backend_metadata_bytes(c->be, P); for (int i = 0; i < k + m; i++) for (uint64_t b = 0; b < t; b++) out[i][REF_HDR_LEN + P + b] = (uint8_t)(0xC3 ^ (i * 5) ^ (int)(b * 3)); }
    for (int i = 0; i < k + m; i++)
        model_fragment_header(c, len, i, out[i] + REF_HDR_LEN, legacy, out[i]);
}

uint64_t ctx_payload_size(const ctx_t *x, uint64_t flen)
{
    for (int i = 0; i < x->nstr; i++) if (x->st[i].flen == flen) return ref_payload_size(x->c.be, x->c.k, x->st[i].len);
    return flen - 80 - ref_backend_metadata_bytes(x->c.be, 0);
}

/* ------------- presentations ------------- */
void pres_build(pres_t *p, const stripe_t *s, const int *idxs, int n, int almode, int guarded, rng_t *r)
{
    memset(p, 0, sizeof *p);
    if (n > PRES_MAX) n = PRES_MAX;
    p->n = n;
    for (int i = 0; i < n; i++) {
        int mis = 0;
        if (almode == AL_MISALIGNED) mis = 1 + (int)rng_below(r, 15);
        else if (almode == AL_MIXED) mis = (rng_below(r, 2)) ? 1 + (int)rng_below(r, 15) : 0;
        size_t flen = s->flen;
        if (guarded) {
            /* 1: start at 16n+mis, <=15 bytes of slack before the guard; 2: ends exactly at the guard
             * page (over-reads fault); 3: starts exactly after a guard page (under-reads fault) */
            uint8_t *b = guarded == 2 ? g_alloc(flen, G_END) : guarded == 3 ? g_alloc(flen, G_START) : g_alloc_off(flen, mis);
            memcpy(b, s->frag[idxs[i]], flen);
            g_ro(b);
            p->ptr[i] = (char *)b; p->base[i] = b; p->kind[i] = 1;
        } else {
            void *b = NULL;
            if (posix_memalign(&b, 16, flen + (size_t)mis + (flen + (size_t)mis == 0))) abort();
            memcpy((uint8_t *)b + mis, s->frag[idxs[i]], flen);
            p->ptr[i] = (char *)b + mis; p->base[i] = b; p->kind[i] = 0;
        }
    }
}

void pres_free(pres_t *p)
{
    for (int i = 0; i < p->n; i++) {
        if (p->kind[i] == 1) g_free(p->base[i]);
        else if (p->kind[i] == 0) free(p->base[i]);
    }
    p->n = 0;
}

/* ------------- data ------------- */
const char *data_kind_name(int kind)
{
    static const char *n[] = { "random", "zero", "ff", "high", "boundary", "edge", "crc0" };
    return (kind >= 0 && kind < DATA_KINDS) ? n[kind] : "?";
}

/* choose the last four bytes of p[0..n) so that its CRC-32 (the variant the writer uses) becomes `target`: the CRC is affine
 * in the message bits, so the 32 unknown bits solve a 32x32 system over GF(2) */
extern int LEC_MODEL_LEGACY;
static void force_crc(uint8_t *p, uint64_t n, uint32_t target)
{
    if (n < 4) return;
    uint32_t (*crc)(const uint8_t *, size_t) = LEC_MODEL_LEGACY ? crc_legacy : crc_std;
    uint8_t *t = p + n - 4; memset(t, 0, 4);
    uint32_t c0 = crc(p, n), rhs = c0 ^ target, basis[32], bsel[32];
    memset(basis, 0, sizeof basis); memset(bsel, 0, sizeof bsel);
    for (int b = 0; b < 32; b++) {
        t[b / 8] ^= (uint8_t)(1u << (b % 8)); uint32_t v = crc(p, n) ^ c0, sel = 1u << b; t[b / 8] ^= (uint8_t)(1u << (b % 8));
        for (int bit = 31; bit >= 0 && v; bit--) { if (!(v >> bit & 1)) continue; if (!basis[bit]) { basis[bit] = v; bsel[bit] = sel; break; } v ^= basis[bit]; sel ^= bsel[bit]; }
    }
    uint32_t sol = 0;
    for (int bit = 31; bit >= 0; bit--) if (rhs >> bit & 1) { if (!basis[bit]) return; rhs ^= basis[bit]; sol ^= bsel[bit]; }
    for (int b = 0; b < 32; b++) if (sol >> b & 1) t[b / 8] ^= (uint8_t)(1u << (b % 8));
}

void data_fill(uint8_t *buf, uint64_t len, int kind, rng_t *r, int k, uint64_t payload)
{
    switch (kind) {
    case DATA_CRC0:
        rng_fill(r, buf, len);
        if (payload >= 4 && len >= payload) force_crc(buf, payload, 0);
        if (payload >= 4 && len >= 2 * payload && k >= 2) force_crc(buf + payload, payload, 0xffffffffu);
        break;
    case DATA_RANDOM: rng_fill(r, buf, len); break;
    case DATA_ZERO: memset(buf, 0, len); break;
    case DATA_FF: memset(buf, 0xff, len); break;
    case DATA_HIGH: rng_fill(r, buf, len); for (uint64_t i = 0; i < len; i++) buf[i] |= 0x80; break;
    case DATA_BOUNDARY:
        memset(buf, 0, len);
        for (int i = 0; i <= k; i++) {
            uint64_t b = (uint64_t)i * payload;
            if (b < len) buf[b] = (uint8_t)(0x81 + i);
            if (b > 0 && b - 1 < len) buf[b - 1] = (uint8_t)(0x41 + i);
        }
        if (len) buf[len - 1] ^= 0x5a;
        break;
    case DATA_EDGE: {
        static const uint8_t pat[] = { 0x00,0x00, 0x01,0x00, 0xfe,0xff, 0x00,0x80, 0xff,0x00, 0x00,0xff, 0xff,0xff, 0x02,0x00, 0xff,0x7f };
        rng_fill(r, buf, len);
        for (int i = 0; i < k; i++) {
            uint64_t b = (uint64_t)i * payload, e = b + payload < len ? b + payload : len;
            if (b >= len) break;
            uint64_t o = b;
            int lead = 1 + (i % 3);                               /* 1..3 leading ffff words */
            for (int q = 0; q < 2 * lead && o < e; q++) buf[o++] = 0xff;
            for (size_t q = 0; q < sizeof pat && o < e; q++) buf[o++] = pat[(q + 2 * (size_t)i) % sizeof pat];
            if (e - b >= 4) { buf[e - 1] = 0xff; buf[e - 2] = 0xff; }   /* trailing ffff word as well */
        }
    } break;
    }
}

int lengths_for(uint64_t A, int thorough, rng_t *r, uint64_t *out, int max)
{
    int n = 0;
    uint64_t fixed[] = { 0, 1, A - 1, A, A + 1, 2 * A - 1, 2 * A, 3 * A + 1, 16 * A, 16 * A + 7,
                         3 * A, 5 * A - 1, 6 * A, 7 * A, 9 * A - 2, 11 * A, 13 * A, 15 * A - 1 };   /* payload residues */
    for (size_t i = 0; i < sizeof fixed / sizeof fixed[0] && n < max; i++) {
        int dup = 0;
        for (int j = 0; j < n; j++) if (out[j] == fixed[i]) dup = 1;
        if (!dup) out[n++] = fixed[i];
    }
    int extra = thorough ? 4 : 2;
    for (int i = 0; i < extra && n < max; i++) out[n++] = 1 + rng_below(r, 4096);
    if (thorough && n < max) out[n++] = 65536 + rng_below(r, 65536);
    return n;
}

uint32_t mask_of(const int *idx, int n) { uint32_t m = 0; for (int i = 0; i < n; i++) m |= 1u << idx[i]; return m; }
int list_of(uint32_t mask, int n, int *out) { int c = 0; for (int i = 0; i < n; i++) if (mask >> i & 1) out[c++] = i; return c; }
void mask_str(uint32_t mask, int n, char *buf, size_t len)
{
    size_t o = 0; int first = 1;
    o += (size_t)snprintf(buf + o, len - o, "[");
    for (int i = 0; i < n && o < len - 8; i++)
        if (mask >> i & 1) { o += (size_t)snprintf(buf + o, len - o, "%s%d", first ? "" : ",", i); first = 0; }
    snprintf(buf + o, len - o, "]");
}

const char *LEC_PROP = "";
int LEC_MODEL_LEGACY = 0;   /* 1 while the legacy-CRC environment switch is on */

/* ---------------------------------------------------------------- set-up */
int ctx_open(ctx_t *x, const cfg_t *c, const uint64_t *lens, const int *kinds, int nlen)
{
    memset(x, 0, sizeof *x);
    x->c = *c; x->desc = -1;
    cfg_key(c, x->ck, sizeof x->ck);
    code_init(&x->cd, c);
    if (mon_case_all("%s|create", x->ck)) {
        x->desc = lec_create(c);
        if (x->desc <= 0)
            mon_viol(LEC_PROP, "create-failed", "instance_create for a supported configuration returned %d", x->desc);
        mon_end();
    }
    if (x->desc <= 0) return -1;
    x->desc2 = -1;
    if (mon_case_all("%s|create-twin-instance", x->ck)) {
        /* created while the legacy-CRC switch has the OTHER value: what an instance writes depends on the environment
         * at the time it writes, not on the environment it was created in */
        lec_env_legacy(LEC_MODEL_LEGACY ? 0 : 3);
        x->desc2 = lec_create(c);
        lec_env_legacy(LEC_MODEL_LEGACY ? 3 : 0);
        if (x->desc2 <= 0) mon_viol(LEC_PROP, "create-failed", "second instance_create for the same configuration returned %d", x->desc2);
        else if (x->desc2 == x->desc) mon_viol(LEC_PROP, "descriptor-not-unique", "second instance got the descriptor of the first (%d)", x->desc);
        mon_end();
    }
    if (nlen > MAXSTR) nlen = MAXSTR;
    for (int i = 0; i < nlen; i++) {
        int ok = 0;
        if (mon_case_all("%s|encode|len=%llu|data=%s", x->ck, (unsigned long long)lens[i], data_kind_name(kinds[i]))) {
            rng_t r; rng_seed(&r, MO.seed, mon_hash_str(x->ck, lens[i] * 31 + (uint64_t)kinds[i]));
            uint8_t *d = malloc(lens[i] ? lens[i] : 1);
            data_fill(d, lens[i], kinds[i], &r, c->k, ref_payload_size(c->be, c->k, lens[i]));
            stripe_t *s = &x->st[x->nstr];
            int rc = stripe_make(s, x->desc, c, d, lens[i]);
            if (rc != 0) {
                mon_viol(LEC_PROP, "encode-failed", "encode of %llu bytes returned %d", (unsigned long long)lens[i], rc);
                free(d);
            } else {
                /* the stripe the library produced must be the reference stripe (C07 oracle):
                 * keeps every later comparison anchored to an independent model */
                uint64_t ef = model_fragment_len(c, lens[i]);
                if (s->flen != ef)
                    mon_viol(LEC_PROP, "encode-fragment-length", "fragment_len %llu, model %llu", (unsigned long long)s->flen, (unsigned long long)ef);
                else if (c->be != EC_BACKEND_NULL) {
                    uint8_t *exp[64];
                    for (int f = 0; f < s->n; f++) exp[f] = malloc(ef);
                    model_stripe(c, d, lens[i], LEC_MODEL_LEGACY, exp);
                    for (int f = 0; f < s->n; f++) {
                        if (memcmp(exp[f], s->frag[f], ef)) {
                            uint64_t off = 0; while (exp[f][off] == s->frag[f][off]) off++;
                            mon_viol(LEC_PROP, "encode-differs-from-model", "fragment %d differs from the reference serializer at byte %llu (len=%llu): got %02x want %02x",
                                     f, (unsigned long long)off, (unsigned long long)lens[i], s->frag[f][off], exp[f][off]);
                            break;
                        }
                    }
                    for (int f = 0; f < s->n; f++) free(exp[f]);
                }
                x->data[x->nstr] = d; x->kind[x->nstr] = kinds[i];
                x->nstr++; ok = 1;
            }
            mon_end();
        }
        (void)ok;
    }
    /* the twin instance encodes the same bytes to the same fragments (what an instance writes does not depend on which
     * instance of the configuration it is, nor on what was created before it) */
    if (x->nstr > 0 && x->desc2 > 0 && c->be != EC_BACKEND_NULL) {
        int si = x->nstr - 1;
        if (mon_case_all("%s|twin-encode|len=%llu", x->ck, (unsigned long long)x->st[si].len)) {
            stripe_t t;
            int rc = stripe_make(&t, x->desc2, c, x->data[si], x->st[si].len);
            if (rc != 0) mon_viol(LEC_PROP, "twin-encode-failed", "encode through the second instance of the configuration returned %d", rc);
            else {
                if (t.flen != x->st[si].flen) mon_viol(LEC_PROP, "twin-encode-differs", "second instance of the configuration produces fragment_len %llu, first %llu", (unsigned long long)t.flen, (unsigned long long)x->st[si].flen);
                else for (int f = 0; f < t.n; f++) if (memcmp(t.frag[f], x->st[si].frag[f], t.flen)) { mon_viol(LEC_PROP, "twin-encode-differs", "fragment %d encoded through the second instance of the configuration differs from the first instance's", f); break; }
                stripe_free(&t);
            }
            mon_end();
        }
    }
    if (x->nstr > 0) noise_publish(x->desc, &x->c, &x->st[x->nstr / 2]);
    return x->nstr > 0 ? 0 : -1;
}

void ctx_close(ctx_t *x)
{
    noise_unpublish();
    for (int i = 0; i < x->nstr; i++) { stripe_free(&x->st[i]); free(x->data[i]); }
    if (x->desc2 > 0) {
        if (mon_case_all("%s|destroy-twin-instance", x->ck)) {
            int rc = liberasurecode_instance_destroy(x->desc2);
            if (rc != 0) mon_viol(LEC_PROP, "destroy-failed", "instance_destroy of the twin instance returned %d", rc);
            mon_end();
        }
    }
    if (x->desc > 0) {
        if (mon_case_all("%s|destroy", x->ck)) {
            int rc = liberasurecode_instance_destroy(x->desc);
            if (rc != 0) mon_viol(LEC_PROP, "destroy-failed", "instance_destroy returned %d", rc);
            mon_end();
        }
    }
}

/* standard stripe set for a config: lengths x data kinds */
int std_lengths(const cfg_t *c, uint64_t *lens, int *kinds, int max, int few)
{
    rng_t r; rng_seed(&r, MO.seed, (uint64_t)(c->be * 1000003 + c->k * 1009 + c->m * 31 + c->hd));
    cfg_use(c);
    uint64_t A = (uint64_t)c->k * (uint64_t)ref_word_bytes(c->be);
    uint64_t all[40];
    int n = lengths_for(A, MO.thorough, &r, all, 40);
    int out = 0;
    if (few) {
        /* unaligned small, aligned, one random */
        uint64_t pick[4] = { A + 1, 16 * A, all[n - 1], 0 };
        int np = few < 4 ? few : 4;
        for (int i = 0; i < np && out < max; i++) { lens[out] = pick[i]; kinds[out] = i == 1 ? DATA_HIGH : i == 2 ? DATA_CRC0 : DATA_RANDOM; out++; }
        return out;
    }
    for (int i = 0; i < n && out < max; i++) {
        lens[out] = all[i];
        kinds[out] = (i % 4 == 3) ? 1 + (int)rng_below(&r, DATA_KINDS - 1) : DATA_RANDOM;
        if (i == 6) kinds[out] = DATA_CRC0;          /* one stripe per configuration whose first fragments carry the checksum values 0 and ffffffff */
        out++;
    }
    return out;
}


int payload_sweep_lengths(const cfg_t *c, uint64_t *lens, int *kinds, int max)
{
    cfg_use(c);
    uint64_t W = (uint64_t)ref_word_bytes(c->be), k = (uint64_t)c->k;
    int n = 0;
    for (uint64_t P = W; P <= 32 + W && n < max; P += W) { lens[n] = k * P - (n % 3 == 1 && k * P > 1 ? 1 : 0); kinds[n] = n % 4 == 3 ? DATA_HIGH : n % 4 == 1 ? DATA_EDGE : DATA_RANDOM; n++; }
    static const uint64_t around[] = { 64, 128, 1024 };
    for (int a = 0; a < 3; a++) for (int d = -1; d <= 1 && n < max; d++) {
        uint64_t P = around[a] + (uint64_t)((int64_t)d * (int64_t)W);
        P -= P % W;
        lens[n] = k * P - (d == 0 ? 0 : 1); kinds[n] = DATA_RANDOM; n++;
    }
    return n;
}

/* ================================================================ environment switch, in place */
#include <pthread.h>
#include <sched.h>
#include <stdatomic.h>
static char env_buf[48] = "XIBERASURECODE_WRITE_LEGACY_CRC=\0\0\0\0\0\0\0";
static int env_inited;
void lec_env_legacy(int mode)
{
    if (!env_inited) {          /* first call happens before any thread is started */
        unsetenv("LIBERASURECODE_WRITE_LEGACY_CRC");
        putenv(env_buf);        /* environ points at env_buf from now on; only its bytes change */
        env_inited = 1;
    }
    volatile char *b = env_buf;
    char *val = env_buf + 32;
    b[0] = 'X';                                         /* hidden: getenv("LIBERASURECODE_...") finds nothing */
    static const char *vals[] = { "", "", "0", "1", "yes" };
    const char *v = vals[mode < 0 || mode > 4 ? 0 : mode];
    for (int i = 0; i < 4; i++) val[i] = i < (int)strlen(v) ? v[i] : 0;
    if (mode != 0) b[0] = 'L';
}

/* ================================================================ noise thread */
typedef struct { int desc; cfg_t c; int n, k, tol; uint64_t flen, len; uint8_t **frag; } nz_pub_t;
static nz_pub_t nz_slot;
static _Atomic(nz_pub_t *) nz_cur;
static atomic_int nz_busy, nz_quit, nz_running;
static atomic_long nz_ops;
static pthread_t nz_thread;

typedef struct { cfg_t c; int desc; stripe_t s; uint8_t *data; uint8_t *twin; } nz_own_t;
#define NZ_OWN 5
static nz_own_t nz_own[NZ_OWN];
static int nz_nown;

static uint8_t *nz_legacy_frag;      /* a fragment of the first own stripe whose payload checksum is the historical CRC (as an old writer left it) */
static void nz_use(int desc, const cfg_t *c, int n, int k, int tol, uint64_t flen, uint8_t **frag, uint64_t round, uint8_t *twin)
{
    /* decode with data loss (pattern varies per round), reconstruct, fragments_needed, metadata / validation queries */
    char *lst[64]; int cnt = 0;
    uint32_t er = 0;
    int want = tol < 1 ? 0 : 1 + (int)(round % (uint64_t)tol);
    if (c->be == EC_BACKEND_FLAT_XOR_HD && c->hd == 4 && (round & 1)) { er = 1u | 2u | (1u << (5 % k)); want = 3; }   /* a P xor Q triple of the m=5 tables */
    else for (int q = 0; q < want; q++) er |= 1u << ((round * 7 + (uint64_t)q * 3) % (uint64_t)n);
    for (int i = 0; i < n; i++) if (!((er >> i) & 1)) lst[cnt++] = (char *)frag[i];
    char *out = NULL; uint64_t ol = 0;
    if (liberasurecode_decode(desc, lst, cnt, flen, (int)(round & 1), &out, &ol) == 0) liberasurecode_decode_cleanup(desc, out);
    if (er) {
        int dest = __builtin_ctz(er);
        if (round & 2) for (int i = n - 1; i >= 0; i--) if ((er >> i) & 1) { dest = i; break; }
        char *o = malloc(flen ? flen : 1);
        liberasurecode_reconstruct_fragment(desc, lst, cnt, flen, dest, o);
        free(o);
        int R[8], X[2] = { -1, -1 }, N[40]; int nr = 0;
        for (int i = 0; i < n && nr < 6; i++) if ((er >> i) & 1) R[nr++] = i;
        R[nr] = -1;
        liberasurecode_fragments_needed(desc, R, X, N);
    }
    fragment_metadata_t md;
    liberasurecode_get_fragment_metadata((char *)frag[round % (uint64_t)n], &md);
    if (twin) liberasurecode_get_fragment_metadata((char *)twin, &md);
    /* historical-CRC and standard-CRC fragments verified alternately while the main thread verifies its own */
    if (twin && nz_legacy_frag) { liberasurecode_get_fragment_metadata((char *)nz_legacy_frag, &md); liberasurecode_get_fragment_metadata((char *)nz_own[0].s.frag[2], &md); }
    is_invalid_fragment(desc, (char *)frag[(round + 1) % (uint64_t)n]);
    liberasurecode_verify_stripe_metadata(desc, lst, cnt);
    liberasurecode_get_fragment_size(desc, (int)(round % 5000));
    liberasurecode_get_aligned_data_size(desc, round % 7000);
    atomic_fetch_add(&nz_ops, 1);
}

static void *nz_main(void *arg)
{
    (void)arg;
    uint64_t round = 0;
    while (!atomic_load(&nz_quit)) {
        nz_pub_t *p = atomic_load(&nz_cur);
        if (p) {
            atomic_store(&nz_busy, 1);
            if (atomic_load(&nz_cur) == p) nz_use(p->desc, &p->c, p->n, p->k, p->tol, p->flen, p->frag, round, NULL);
            atomic_store(&nz_busy, 0);
        }
        if (nz_nown) { nz_own_t *o = &nz_own[round % (uint64_t)nz_nown]; nz_use(o->desc, &o->c, o->s.n, o->c.k, cfg_tol(&o->c), o->s.flen, o->s.frag, round / (uint64_t)nz_nown, o->twin); }
        round++;
    }
    return NULL;
}

void noise_start(void)
{
    lec_env_legacy(0);
    static const cfg_t pool[NZ_OWN] = { { EC_BACKEND_LIBERASURECODE_RS_VAND, 10, 4, 4, 0, CHKSUM_CRC32 }, { EC_BACKEND_FLAT_XOR_HD, 10, 5, 4, 0, CHKSUM_CRC32 },
                                        { EC_BACKEND_FLAT_XOR_HD, 12, 6, 4, 0, CHKSUM_NONE }, { EC_BACKEND_ISA_L_RS_CAUCHY, 4, 2, 2, 0, CHKSUM_CRC32 }, { EC_BACKEND_LIBERASURECODE_RS_VAND, 3, 3, 3, 0, CHKSUM_NONE } };
    int isal = liberasurecode_backend_available(EC_BACKEND_ISA_L_RS_CAUCHY);
    nz_nown = 0;
    for (int i = 0; i < NZ_OWN; i++) {
        if (!isal && pool[i].be == EC_BACKEND_ISA_L_RS_CAUCHY) continue;
        nz_own_t *o = &nz_own[nz_nown];
        o->c = pool[i];
        int saved = ref_isal_word_bits;
        o->desc = lec_create(&o->c);
        ref_isal_word_bits = saved;
        if (o->desc <= 0) continue;
        uint64_t len = (uint64_t)o->c.k * 1700 + 13;              /* > 1 KiB per fragment */
        o->data = malloc(len); rng_t r; rng_seed(&r, 99, (uint64_t)i); rng_fill(&r, o->data, len);
        if (stripe_make(&o->s, o->desc, &o->c, o->data, len) != 0) { liberasurecode_instance_destroy(o->desc); free(o->data); continue; }
        o->twin = malloc(o->s.flen); memcpy(o->twin, o->s.frag[0], o->s.flen);
        { uint8_t t[REF_HDR_LEN]; ref_hdr_twin(o->s.frag[0], t, 0); memcpy(o->twin, t, REF_HDR_LEN); }
        if (nz_nown == 0 && o->c.ct == CHKSUM_CRC32 && o->s.flen > 80 && !nz_legacy_frag) {
            nz_legacy_frag = malloc(o->s.flen); memcpy(nz_legacy_frag, o->s.frag[1], o->s.flen);
            ref_put32(nz_legacy_frag + REF_OFF_CHKSUM, crc_legacy(nz_legacy_frag + 80, o->s.flen - 80)); ref_hdr_reseal(nz_legacy_frag, 1);
        }
        nz_nown++;
    }
    atomic_store(&nz_quit, 0);
    if (pthread_create(&nz_thread, NULL, nz_main, NULL) == 0) atomic_store(&nz_running, 1);
    mon_count0("noise_thread_started", 1);
}

void noise_publish(int desc, const cfg_t *c, const stripe_t *s)
{
    if (!atomic_load(&nz_running) || desc <= 0 || c->be == EC_BACKEND_NULL) return;
    noise_unpublish();
    nz_slot.desc = desc; nz_slot.c = *c; nz_slot.n = s->n; nz_slot.k = c->k; nz_slot.tol = cfg_tol(c); nz_slot.flen = s->flen; nz_slot.len = s->len; nz_slot.frag = s->frag;
    atomic_store(&nz_cur, &nz_slot);
}

void noise_unpublish(void)
{
    if (!atomic_load(&nz_running)) return;
    atomic_store(&nz_cur, NULL);
    while (atomic_load(&nz_busy)) sched_yield();
}

void noise_stop(void)
{
    if (!atomic_load(&nz_running)) return;
    noise_unpublish();
    atomic_store(&nz_quit, 1);
    pthread_join(nz_thread, NULL);
    atomic_store(&nz_running, 0);
    mon_count("noise_thread_rounds", atomic_load(&nz_ops));
    for (int i = 0; i < nz_nown; i++) { liberasurecode_instance_destroy(nz_own[i].desc); stripe_free(&nz_own[i].s); free(nz_own[i].data); free(nz_own[i].twin); }
    nz_nown = 0;
}


/* ================================================================ populations of instances
 * One use of an instance: encode an object (fragments compared with the reference model, header and checksum included),
 * decode and reconstruct it with up to three erasure lists, and - for CRC32 instances - see a damaged payload flagged. */
int lec_use_instance(const cfg_t *c, int d, uint64_t seed, const char *what)
{
    int n = c->k + c->m; uint64_t len = (uint64_t)c->k * 24 + 5; uint8_t *data = malloc(len); rng_t r; rng_seed(&r, MO.seed, seed); rng_fill(&r, data, len);
    stripe_t st; int ok = 1;
    cfg_use(c);
    if (stripe_make(&st, d, c, data, len) != 0) { mon_viol(LEC_PROP, "churn-encode-failed", "%s: encode failed", what); free(data); return 0; }
    uint8_t *exp[64]; uint64_t ef = model_fragment_len(c, len);
    for (int f = 0; f < n; f++) exp[f] = malloc(ef);
    model_stripe(c, data, len, 0, exp);
    if (c->be != EC_BACKEND_NULL) for (int f = 0; f < n && ok; f++) if (ef != st.flen || memcmp(exp[f], st.frag[f], ef)) { mon_viol(LEC_PROP, "churn-encode-differs-from-model", "%s: fragment %d differs from the model", what, f); ok = 0; }
    for (int f = 0; f < n; f++) free(exp[f]);
    int tol = cfg_tol(c);
    /* the first and the last call of every instance use the same erasure list (so that the next instance's first call repeats
     * the previous instance's last) */
    for (int e = 0; e < 3 && ok && c->be != EC_BACKEND_NULL; e++) {
        uint32_t er = e == 1 ? 1u : (tol >= 2 && c->k >= 2 ? 3u : 1u);
        if (tol < 1) break;
        char *lst[32]; int cnt = 0; for (int f = 0; f < n; f++) if (!(er >> f & 1)) lst[cnt++] = (char *)st.frag[f];
        char *out = NULL; uint64_t ol = 0; int rc = liberasurecode_decode(d, lst, cnt, st.flen, 0, &out, &ol);
        if (rc != 0 || ol != len || memcmp(out, data, len)) { mon_viol(LEC_PROP, "churn-decode-wrong", "%s: decode (erased 0x%x) rc=%d%s", what, er, rc, rc ? "" : ", wrong bytes"); ok = 0; }
        if (rc == 0) liberasurecode_decode_cleanup(d, out);
        uint8_t *o = malloc(st.flen); rc = liberasurecode_reconstruct_fragment(d, lst, cnt, st.flen, 0, (char *)o);
        if (rc != 0 || memcmp(o, st.frag[0], st.flen)) { mon_viol(LEC_PROP, "churn-reconstruct-wrong", "%s: reconstruct(0) (erased 0x%x) rc=%d", what, er, rc); ok = 0; }
        free(o);
    }
    if (ok && c->ct == CHKSUM_CRC32 && st.flen > 80 && c->be != EC_BACKEND_NULL) {
        uint8_t *cp = malloc(st.flen); memcpy(cp, st.frag[n - 1], st.flen); cp[80 + (seed % 4)] ^= 0x10;
        fragment_metadata_t md; int rc = liberasurecode_get_fragment_metadata((char *)cp, &md);
        if (rc != 0 || md.chksum_mismatch != 1 || !is_invalid_fragment(d, (char *)cp)) { mon_viol(LEC_PROP, "churn-damage-not-flagged", "%s: payload damage in a CRC32 fragment: query rc=%d mismatch=%d, validation says %s", what, rc, rc ? -1 : (int)md.chksum_mismatch, is_invalid_fragment(d, (char *)cp) ? "invalid" : "valid"); ok = 0; }
        free(cp);
    }
    mon_count("evaluations", 5); mon_count("churn_instance_uses", 1);
    stripe_free(&st); free(data);
    return ok;
}

/* Histories over a small pool of shapes: "create pool[i]" (the same entry may be created several times: twins), "destroy the
 * oldest / the newest / the middle live instance"; after every step every live instance is used.  All histories up to a length
 * are enumerated from an empty population, followed by longer random ones.  Whatever instances share - arithmetic tables,
 * matrices, plug-in handles, descriptor numbering - meets every order of arrival and departure. */
typedef struct { int d, pi; } popent_t;
#define POP_MAXLIVE 6
static int pop_replay(const cfg_t *pool, int npool, const int *ops, int nops, const char *hist)
{
    popent_t live[POP_MAXLIVE]; int nl = 0, ok = 1; char what[256];
    for (int s = 0; s < nops && ok; s++) {
        int op = ops[s];
        if (op < npool) {
            if (nl == POP_MAXLIVE) break;
            int d = lec_create(&pool[op]);
            if (d <= 0) { mon_viol(LEC_PROP, "population-create-failed", "history %s, step %d: create rc=%d", hist, s + 1, d); ok = 0; break; }
            for (int j = 0; j < nl; j++) if (live[j].d == d) { mon_viol(LEC_PROP, "population-descriptor-reused", "history %s, step %d: create returned descriptor %d which a live instance holds", hist, s + 1, d); ok = 0; }
            live[nl].d = d; live[nl].pi = op; nl++;
        } else {
            if (nl == 0) break;
            int w = op == npool ? 0 : op == npool + 1 ? nl - 1 : nl / 2;
            if (liberasurecode_instance_destroy(live[w].d) != 0) { mon_viol(LEC_PROP, "population-destroy-failed", "history %s, step %d", hist, s + 1); ok = 0; }
            memmove(&live[w], &live[w + 1], sizeof live[0] * (size_t)(nl - w - 1)); nl--;
        }
        for (int j = 0; j < nl && ok; j++) {
            snprintf(what, sizeof what, "history %s, after step %d: live instance #%d (%s k=%d m=%d ct=%d)", hist, s + 1, j, be_name(pool[live[j].pi].be), pool[live[j].pi].k, pool[live[j].pi].m, pool[live[j].pi].ct);
            ok = lec_use_instance(&pool[live[j].pi], live[j].d, (uint64_t)(s * 8 + j), what);
        }
        mon_count("population_steps", 1);
    }
    for (int j = 0; j < nl; j++) liberasurecode_instance_destroy(live[(j & 1) ? nl - 1 - j / 2 : j / 2].d);
    return ok;
}
static void pop_hist(const cfg_t *pool, int npool, const int *ops, int nops, char *buf, size_t n)
{
    size_t o = 0; buf[0] = 0;
    for (int s = 0; s < nops && o + 24 < n; s++) {
        if (ops[s] < npool) o += (size_t)snprintf(buf + o, n - o, "%s+%s(%d,%d,ct%d)", s ? ">" : "", be_name(pool[ops[s]].be), pool[ops[s]].k, pool[ops[s]].m, pool[ops[s]].ct);
        else o += (size_t)snprintf(buf + o, n - o, "%s-%s", s ? ">" : "", ops[s] == npool ? "oldest" : ops[s] == npool + 1 ? "newest" : "middle");
    }
}
void lec_population(const cfg_t *pool_in, int npool_in, const char *tag, int exh_len, int walks, int walk_len)
{
    cfg_t pool[8]; int npool = 0;
    for (int i = 0; i < npool_in && npool < 8; i++) if (liberasurecode_backend_available((ec_backend_id_t)pool_in[i].be)) pool[npool++] = pool_in[i];
    if (npool < 2) return;
    int nsym = npool + 3, ops[64]; char hist[512];
    long total = 1; for (int i = 0; i < exh_len; i++) total *= nsym;
    for (long code = 0; code < total; code++) {
        long c = code; int live = 0, valid = 1, creates = 0;
        for (int s = 0; s < exh_len; s++) { ops[s] = (int)(c % nsym); c /= nsym; if (ops[s] < npool) { live++; creates++; if (live > POP_MAXLIVE) valid = 0; } else { if (live == 0) valid = 0; live--; } }
        /* histories ending in a destroy of the only instance, or starting with two steps that cancel, add nothing new */
        if (!valid || creates < 2) continue;
        if (!mon_case("%s|population|exhaustive-%d|#%ld", tag, exh_len, code)) continue;
        pop_hist(pool, npool, ops, exh_len, hist, sizeof hist);
        pop_replay(pool, npool, ops, exh_len, hist);
        mon_distinct("nontrivial", mon_hash_u64((uint64_t)code, mon_hash_str(tag, 7001)));
        mon_count("population_histories", 1);
        mon_end();
    }
    for (int w = 0; w < walks; w++) {
        if (!mon_case("%s|population|walk#%d", tag, w)) continue;
        rng_t r; rng_seed(&r, MO.seed, 7100 + (uint64_t)w);
        int live = 0, nops = 0;
        while (nops < walk_len && nops < 64) {
            int op = (int)(rng_u64(&r) % (uint64_t)nsym);
            if (op < npool) { if (live == POP_MAXLIVE) continue; live++; } else { if (live == 0) continue; live--; }
            ops[nops++] = op;
        }
        pop_hist(pool, npool, ops, nops, hist, sizeof hist);
        pop_replay(pool, npool, ops, nops, hist);
        mon_distinct("nontrivial", mon_hash_u64((uint64_t)w, mon_hash_str(tag, 7002)));
        mon_count("population_histories", 1);
        mon_end();
    }
}
