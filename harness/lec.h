/* Library-facing helpers shared by the drivers (configs, stripes, presentations,
 * expected-fragment construction from the reference models). */
#ifndef VERIF_LEC_H
#define VERIF_LEC_H
#include <stdint.h>
#include <stddef.h>
#include "mon.h"
#include "ref.h"
#include "erasurecode.h"

typedef struct { int be, k, m, hd, w, ct; } cfg_t;

const char *be_name(int be);
int  cfg_n(const cfg_t *c);
int  cfg_is_rs(const cfg_t *c);            /* rs_vand or isa-l: MDS-style, tolerance m */
int  cfg_tol(const cfg_t *c);              /* max erasures guaranteed: m (RS) / hd-1 (XOR) */
void cfg_key(const cfg_t *c, char *buf, size_t n);   /* "rs_vand|k=4,m=2,hd=2,ct=2" */
void cfg_use(const cfg_t *c);             /* point the size models at this configuration (word size) */
int  lec_create(const cfg_t *c);           /* returns descriptor or negative rc */
uint32_t lec_backend_version(int be);      /* read from the exported backend descriptor */

/* configuration sets */
int cfgs_rs(cfg_t *out, int max, int be, int thorough, uint64_t seed);   /* (k,m) shapes for an RS-like backend */
int cfgs_xor(cfg_t *out, int max);
int cfgs_phazr(cfg_t *out, int max);                                      /* stand-in libphazr shapes (backend metadata grows with the payload, encode offset != 0) */
int cfgs_jer(cfg_t *out, int max);                                        /* stand-in libJerasure shapes (word sizes 8/16/32; bit-matrix code with 1 KiB packets) */
int cfg_jer_w(const cfg_t *c);                                            /* effective word size of a jerasure configuration */
int cfgs_shss(cfg_t *out, int max);                                       /* stand-in libshss shapes (backend metadata = 32 bytes) */                                        /* the 38 tables */

/* ---- generator rows / recoverability oracle ---- */
typedef struct {
    int be, k, m, n;
    uint32_t g16[32 * 32];    /* rs_vand generator (closed form) */
    uint8_t  g8[32 * 32];     /* isa-l generator */
    uint32_t x[64];           /* xor rows */
    const xor_table_t *xt;
    int mds;                  /* stand-in libJerasure codes: Cauchy matrices, any k rows independent (rank = min(distinct rows, k)) */
} code_t;
void code_init(code_t *cd, const cfg_t *c);
/* rank of the generator rows with the given indexes */
int code_rank(const code_t *cd, const int *rows, int nrows);
/* can row `target` be computed from rows sel[]? */
int code_spans(const code_t *cd, const int *sel, int nsel, int target);
/* what the implementation's "first k survivors" choice yields: 1 if those rows are invertible */
int code_firstk_invertible(const code_t *cd, uint32_t present_mask);

/* ---- stripes ---- */
typedef struct {
    cfg_t c; int desc;
    uint8_t *data; uint64_t len;          /* original data (heap or guarded, owned by caller) */
    int n; uint64_t flen;                 /* fragment length incl. header */
    uint8_t **frag;                       /* n heap copies (16-aligned) of what encode returned */
} stripe_t;
/* encode through the public API, snapshot the fragments, call encode_cleanup. rc of encode. */
int  stripe_make(stripe_t *s, int desc, const cfg_t *c, const uint8_t *data, uint64_t len);
void stripe_free(stripe_t *s);

/* expected fragments from the reference models (C07 serializer). out[i] must hold flen bytes.
 * returns expected fragment length. parity of the null backend is all-zero. */
uint64_t model_fragment_len(const cfg_t *c, uint64_t len);
void model_stripe(const cfg_t *c, const uint8_t *data, uint64_t len, int legacy, uint8_t **out);
void model_fragment_header(const cfg_t *c, uint64_t len, int idx, const uint8_t *payload, int legacy, uint8_t out[80]);

/* ---- presentations of survivor lists ---- */
#define PRES_MAX 128
typedef struct {
    int n;
    char *ptr[PRES_MAX];
    void *base[PRES_MAX];
    int kind[PRES_MAX];       /* 0 heap, 1 guarded, 2 borrowed */
} pres_t;
#define AL_ALIGNED 0
#define AL_MISALIGNED 1
#define AL_MIXED 2
void pres_build(pres_t *p, const stripe_t *s, const int *idxs, int n, int almode, int guarded, rng_t *r);
void pres_free(pres_t *p);

/* data generators */
#define DATA_RANDOM 0
#define DATA_ZERO 1
#define DATA_FF 2
#define DATA_HIGH 3       /* all bytes >= 0x80 */
#define DATA_BOUNDARY 4   /* zeros with a non-zero byte at each fragment boundary */
#define DATA_EDGE 5       /* every fragment starts with runs of edge-value words: ffff.., 0000, 0001, fffe, 8000, 00ff, ff00 */
#define DATA_CRC0 6       /* random, the last four bytes of data fragment 0 (and 1) chosen so that the payload checksum is 0 (resp. ffffffff) */
#define DATA_KINDS 7
void data_fill(uint8_t *buf, uint64_t len, int kind, rng_t *r, int k, uint64_t payload);
const char *data_kind_name(int kind);

/* length classes for an alignment unit A */
int lengths_for(uint64_t A, int thorough, rng_t *r, uint64_t *out, int max);

/* erasure-set helpers */
uint32_t mask_of(const int *idx, int n);
int list_of(uint32_t mask, int n, int *out);   /* indexes set in mask, ascending */
void mask_str(uint32_t mask, int n, char *buf, size_t len); /* "[0,3,5]" */

/* ---- per-configuration context: instance + a set of encoded stripes ---- */
#define MAXSTR 40
typedef struct {
    cfg_t c; int desc; code_t cd; char ck[96];
    int desc2;               /* a second, separately created instance of the same configuration (reader twin) */
    int nstr; stripe_t st[MAXSTR]; uint8_t *data[MAXSTR]; int kind[MAXSTR];
} ctx_t;
/* payload size (the bytes the checksum covers: no header, no backend-owned tail) of a fragment of the context with this length */
uint64_t ctx_payload_size(const ctx_t *x, uint64_t flen);
extern int LEC_MODEL_LEGACY;
extern const char *LEC_PROP;     /* property id used for violations raised in set-up cases */
int  ctx_open(ctx_t *x, const cfg_t *c, const uint64_t *lens, const int *kinds, int nlen);
void ctx_close(ctx_t *x);
int  std_lengths(const cfg_t *c, uint64_t *lens, int *kinds, int max, int few);
/* data lengths whose per-fragment payload sizes cover every residue modulo 32 the word size allows, plus the
 * neighbourhoods of 64, 128 and 1024 bytes (region loops of 4/8/16-byte words with byte tails) */
int  payload_sweep_lengths(const cfg_t *c, uint64_t *lens, int *kinds, int max);


/* ---- legacy-CRC environment switch, toggled in place (no setenv/unsetenv after start-up, so a concurrent getenv in
 * the noise thread never sees environ being reallocated).  mode: 0 unset, 1 "", 2 "0", 3 "1", 4 "yes" ---- */
void lec_env_legacy(int mode);

/* ---- noise thread (--noise 1): a second thread that keeps using the library - on its own instances of several
 * backends AND on the instance/stripe the main thread currently works on - without judging anything.  The main
 * thread's oracles then see whether results depend on what other threads do (hidden static or per-instance state). ---- */
void noise_start(void);
void noise_stop(void);
void noise_publish(int desc, const cfg_t *c, const stripe_t *s);   /* the main thread's current instance + stripe */
void noise_unpublish(void);                                         /* returns after the noise thread let go of it */
/* ---- populations of instances (histories of create / destroy over a small pool of shapes, every live instance used after every step) ---- */
int  lec_use_instance(const cfg_t *c, int d, uint64_t seed, const char *what);
void lec_population(const cfg_t *pool, int npool, const char *tag, int exh_len, int walks, int walk_len);
#endif
