/* Resource ledger (conservation monitor): the harness executable interposes the
 * malloc family and dlopen/dlclose, forwards to libc, and keeps a table of live
 * blocks tagged with who allocated them (library object or not, by return
 * address).  Only built into non-ASan flavours (-DLEDGER); the ASan flavour uses
 * LeakSanitizer's recoverable leak check instead (ledger_leakcheck()). */
#include "ledger.h"
#include <stddef.h>
#include <stdint.h>
#include <string.h>
#include <stdio.h>

#ifdef LEDGER
#define _GNU_SOURCE 1
#include <dlfcn.h>
#include <link.h>
#include <pthread.h>
#include <errno.h>

extern void *__libc_malloc(size_t);
extern void *__libc_calloc(size_t, size_t);
extern void *__libc_realloc(void *, size_t);
extern void *__libc_memalign(size_t, size_t);
extern void __libc_free(void *);

#define TABSZ (1u << 18)
typedef struct { void *p; size_t n; int lib; } ent_t;
static ent_t tab[TABSZ];
static void *const TOMB = (void *)1;
static pthread_mutex_t mu = PTHREAD_MUTEX_INITIALIZER;
static long foreign_frees;
static long lib_blocks, lib_bytes, all_blocks, unknown_frees, dl_opens, dl_closes, lib_allocs_total, lib_frees_total;
static __thread int inside;

#define MAXR 32
static struct { uintptr_t lo, hi; } ranges[MAXR];
static int nranges;
static volatile int ranges_ready;

static int is_lib_name(const char *n)
{
    if (!n) return 0;
    return strstr(n, "liberasurecode") || strstr(n, "libXorcode") || strstr(n, "libnullcode") || strstr(n, "libisal") || strstr(n, "libshss") || strstr(n, "libJerasure") || strstr(n, "libphazr");
}

static int phdr_cb(struct dl_phdr_info *info, size_t size, void *data)
{
    (void)size; (void)data;
    if (!is_lib_name(info->dlpi_name)) return 0;
    for (int i = 0; i < info->dlpi_phnum && nranges < MAXR; i++) {
        if (info->dlpi_phdr[i].p_type != PT_LOAD || !(info->dlpi_phdr[i].p_flags & PF_X)) continue;
        ranges[nranges].lo = info->dlpi_addr + info->dlpi_phdr[i].p_vaddr;
        ranges[nranges].hi = ranges[nranges].lo + info->dlpi_phdr[i].p_memsz;
        nranges++;
    }
    return 0;
}

void ledger_refresh(void)
{
    inside++;
    nranges = 0;
    dl_iterate_phdr(phdr_cb, NULL);
    ranges_ready = 1;
    inside--;
}

static int from_lib(void *ra)
{
    if (!ranges_ready) return 0;
    uintptr_t a = (uintptr_t)ra;
    for (int i = 0; i < nranges; i++) if (a >= ranges[i].lo && a < ranges[i].hi) return 1;
    return 0;
}

/* allocation failpoint: the n-th allocation requested by library code (counted from arming)
 * returns NULL (posix_memalign: ENOMEM) exactly once */
static volatile long fp_countdown, fp_fired, fp_seen;
static int fp_hit(void *ra)
{
    if (fp_countdown <= 0 || inside) return 0;
    if (!from_lib(ra)) return 0;
    __sync_fetch_and_add(&fp_seen, 1);
    if (__sync_sub_and_fetch(&fp_countdown, 1) == 0) { fp_fired = 1; return 1; }
    return 0;
}
void ledger_fail_arm(long nth) { fp_fired = 0; fp_seen = 0; fp_countdown = nth; }
long ledger_fail_disarm(void) { fp_countdown = 0; return fp_fired; }
long ledger_fail_seen(void) { return fp_seen; }

static void rec_add(void *p, size_t n, int lib)
{
    if (!p) return;
    pthread_mutex_lock(&mu);
    size_t h = ((uintptr_t)p >> 4) * 0x9e3779b97f4a7c15ull >> 46 & (TABSZ - 1);
    for (size_t i = 0; i < TABSZ; i++) {
        size_t j = (h + i) & (TABSZ - 1);
        if (tab[j].p == NULL || tab[j].p == TOMB) { tab[j].p = p; tab[j].n = n; tab[j].lib = lib; break; }
    }
    all_blocks++;
    if (lib) { lib_blocks++; lib_bytes += (long)n; lib_allocs_total++; }
    pthread_mutex_unlock(&mu);
}

static int rec_del(void *p, int by_lib)
{
    int found = 0;
    pthread_mutex_lock(&mu);
    size_t h = ((uintptr_t)p >> 4) * 0x9e3779b97f4a7c15ull >> 46 & (TABSZ - 1);
    for (size_t i = 0; i < TABSZ; i++) {
        size_t j = (h + i) & (TABSZ - 1);
        if (tab[j].p == NULL) break;
        if (tab[j].p == p) {
            if (by_lib && !tab[j].lib) foreign_frees++;      /* the library released a block the caller allocated */
            if (tab[j].lib) { lib_blocks--; lib_bytes -= (long)tab[j].n; lib_frees_total++; }
            all_blocks--;
            tab[j].p = TOMB; found = 1; break;
        }
    }
    if (!found && by_lib) unknown_frees++;
    pthread_mutex_unlock(&mu);
    return found;
}

void *malloc(size_t n)
{
    if (fp_hit(__builtin_return_address(0))) { errno = ENOMEM; return NULL; }
    void *p = __libc_malloc(n);
    if (!inside) { inside++; rec_add(p, n, from_lib(__builtin_return_address(0))); inside--; }
    return p;
}
void *calloc(size_t a, size_t b)
{
    if (fp_hit(__builtin_return_address(0))) { errno = ENOMEM; return NULL; }
    void *p = __libc_calloc(a, b);
    if (!inside) { inside++; rec_add(p, a * b, from_lib(__builtin_return_address(0))); inside--; }
    return p;
}
void *realloc(void *o, size_t n)
{
    int lib = from_lib(__builtin_return_address(0));
    if (fp_hit(__builtin_return_address(0))) { errno = ENOMEM; return NULL; }
    if (o && !inside) { inside++; rec_del(o, 0); inside--; }
    void *p = __libc_realloc(o, n);
    if (!inside) { inside++; rec_add(p, n, lib); inside--; }
    return p;
}
void *memalign(size_t al, size_t n)
{
    if (fp_hit(__builtin_return_address(0))) { errno = ENOMEM; return NULL; }
    void *p = __libc_memalign(al, n);
    if (!inside) { inside++; rec_add(p, n, from_lib(__builtin_return_address(0))); inside--; }
    return p;
}
void *aligned_alloc(size_t al, size_t n)
{
    if (fp_hit(__builtin_return_address(0))) { errno = ENOMEM; return NULL; }
    void *p = __libc_memalign(al, n);
    if (!inside) { inside++; rec_add(p, n, from_lib(__builtin_return_address(0))); inside--; }
    return p;
}
int posix_memalign(void **out, size_t al, size_t n)
{
    if (fp_hit(__builtin_return_address(0))) return ENOMEM;
    void *p = __libc_memalign(al, n);
    if (!p) return ENOMEM;
    if (!inside) { inside++; rec_add(p, n, from_lib(__builtin_return_address(0))); inside--; }
    *out = p;
    return 0;
}
void free(void *p)
{
    if (!p) return;
    if (!inside) { inside++; rec_del(p, from_lib(__builtin_return_address(0))); inside--; }
    __libc_free(p);
}

typedef void *(*dlopen_fn)(const char *, int);
typedef int (*dlclose_fn)(void *);
void *dlopen(const char *name, int flags)
{
    static dlopen_fn real;
    if (!real) real = (dlopen_fn)dlsym(RTLD_NEXT, "dlopen");
    int lib = from_lib(__builtin_return_address(0));
    void *h = real(name, flags);
    if (h && lib) { __sync_fetch_and_add(&dl_opens, 1); ledger_refresh(); }
    return h;
}
int dlclose(void *h)
{
    static dlclose_fn real;
    if (!real) real = (dlclose_fn)dlsym(RTLD_NEXT, "dlclose");
    if (from_lib(__builtin_return_address(0))) __sync_fetch_and_add(&dl_closes, 1);
    return real(h);
}

int  ledger_available(void) { return 1; }
void ledger_get(ledger_t *l)
{
    pthread_mutex_lock(&mu);
    l->lib_blocks = lib_blocks; l->lib_bytes = lib_bytes; l->dl_open = dl_opens - dl_closes;
    l->unknown_frees = unknown_frees + foreign_frees; l->lib_allocs_total = lib_allocs_total; l->lib_frees_total = lib_frees_total;
    pthread_mutex_unlock(&mu);
}
int ledger_leakcheck(void) { return 0; }

#else  /* ---------------- ASan flavour: LeakSanitizer ---------------- */

#if defined(__SANITIZE_ADDRESS__)
extern int __lsan_do_recoverable_leak_check(void);
int ledger_leakcheck(void) { return __lsan_do_recoverable_leak_check(); }
#else
int ledger_leakcheck(void) { return 0; }
#endif
int  ledger_available(void) { return 0; }
void ledger_fail_arm(long nth) { (void)nth; }
long ledger_fail_disarm(void) { return 0; }
long ledger_fail_seen(void) { return 0; }
void ledger_refresh(void) {}
void ledger_get(ledger_t *l) { memset(l, 0, sizeof *l); }

#endif
