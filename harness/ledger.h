#ifndef VERIF_LEDGER_H
#define VERIF_LEDGER_H
typedef struct { long lib_blocks, lib_bytes, dl_open, unknown_frees, lib_allocs_total, lib_frees_total; } ledger_t;
int  ledger_available(void);     /* 1 in -DLEDGER builds (non-ASan flavours) */
void ledger_refresh(void);       /* re-scan the address ranges of the library objects */
void ledger_get(ledger_t *l);    /* live blocks/bytes allocated by library code, dlopen-dlclose balance */
void ledger_fail_arm(long nth);  /* the nth allocation made by library code from now on fails once (LEDGER builds) */
long ledger_fail_disarm(void);   /* disarm; returns 1 if the failpoint fired */
int  ledger_leakcheck(void);     /* ASan flavour: LeakSanitizer recoverable check (non-zero = leak) */
#endif
