#include "mon.h"
#include <execinfo.h>
#include <dlfcn.h>
#include <stdio.h>
#include <stdlib.h>
#include <string.h>
#include <unistd.h>
#include <fcntl.h>
#include <signal.h>
#include <pthread.h>
#include <sys/mman.h>
#include <errno.h>

mon_opts_t MO = { .seed = 1, .nshards = 1, .only = -1, .logfd = 1, .prop = "", .mode = "" };
long mon_case_idx = -1;
static char case_key[512];
static int case_is_setup;
static pthread_mutex_t mon_mu = PTHREAD_MUTEX_INITIALIZER;

/* ------------------------------------------------------------------ */
/* The library logs through syslog(); there is no /dev/log in the sandbox and
 * libc's internal syslog lock is invisible to ThreadSanitizer.  The harness
 * executable therefore provides no-op definitions (it is linked -rdynamic, so
 * the library's calls bind here). */
void syslog(int pri, const char *fmt, ...) { (void)pri; (void)fmt; }
void vsyslog(int pri, const char *fmt, va_list ap) { (void)pri; (void)fmt; (void)ap; }
void openlog(const char *ident, int option, int facility) { (void)ident; (void)option; (void)facility; }
void closelog(void) {}
/* ------------------------------------------------------------------ */

static void wr(const char *s, size_t n)
{
    while (n) {
        ssize_t w = write(MO.logfd, s, n);
        if (w < 0) { if (errno == EINTR) continue; return; }
        s += w; n -= (size_t)w;
    }
}

void mon_logf(const char *fmt, ...)
{
    char buf[2048];
    va_list ap; va_start(ap, fmt);
    int n = vsnprintf(buf, sizeof buf - 1, fmt, ap);
    va_end(ap);
    if (n < 0) return;
    if (n > (int)sizeof buf - 2) n = sizeof buf - 2;
    buf[n++] = '\n';
    wr(buf, (size_t)n);
}

/* ---------------- hashing ---------------- */
uint64_t mon_hash(const void *p, size_t n, uint64_t h)
{
    const uint8_t *b = p;
    h ^= 0xcbf29ce484222325ull;
    for (size_t i = 0; i < n; i++) { h ^= b[i]; h *= 0x100000001b3ull; }
    h ^= h >> 29; h *= 0xbf58476d1ce4e5b9ull; h ^= h >> 32;
    return h;
}
uint64_t mon_hash_str(const char *s, uint64_t h) { return mon_hash(s, strlen(s), h); }
uint64_t mon_hash_u64(uint64_t v, uint64_t h) { return mon_hash(&v, sizeof v, h); }

/* ---------------- stats ---------------- */
#define MAXSTAT 256
static struct { char name[64]; long v; } stats[MAXSTAT];
static int nstats;

void mon_count(const char *name, long n)
{
    pthread_mutex_lock(&mon_mu);
    int i;
    for (i = 0; i < nstats; i++) if (!strcmp(stats[i].name, name)) break;
    if (i == nstats) {
        if (nstats == MAXSTAT) { pthread_mutex_unlock(&mon_mu); return; }
        snprintf(stats[i].name, sizeof stats[i].name, "%s", name);
        stats[i].v = 0; nstats++;
    }
    stats[i].v += n;
    pthread_mutex_unlock(&mon_mu);
}

void mon_count0(const char *name, long n) { if (MO.shard == 0) mon_count(name, n); }

/* distinct sets: open-addressing hash sets of 64-bit values per class */
#define MAXCLS 16
static struct { char name[48]; uint64_t *tab; size_t cap, n; } dsets[MAXCLS];
static int ndsets;

static void dset_insert(int c, uint64_t h)
{
    if (h == 0) h = 1;
    if (dsets[c].n * 2 >= dsets[c].cap) {
        size_t ncap = dsets[c].cap ? dsets[c].cap * 2 : 4096;
        uint64_t *nt = calloc(ncap, sizeof(uint64_t));
        for (size_t i = 0; i < dsets[c].cap; i++) {
            uint64_t v = dsets[c].tab[i];
            if (!v) continue;
            size_t j = (size_t)(v * 0x9e3779b97f4a7c15ull >> 20) & (ncap - 1);
            while (nt[j]) j = (j + 1) & (ncap - 1);
            nt[j] = v;
        }
        free(dsets[c].tab);
        dsets[c].tab = nt; dsets[c].cap = ncap;
    }
    size_t j = (size_t)(h * 0x9e3779b97f4a7c15ull >> 20) & (dsets[c].cap - 1);
    while (dsets[c].tab[j]) {
        if (dsets[c].tab[j] == h) return;
        j = (j + 1) & (dsets[c].cap - 1);
    }
    dsets[c].tab[j] = h; dsets[c].n++;
}

void mon_distinct(const char *cls, uint64_t hash)
{
    pthread_mutex_lock(&mon_mu);
    int i;
    for (i = 0; i < ndsets; i++) if (!strcmp(dsets[i].name, cls)) break;
    if (i == ndsets) {
        if (ndsets == MAXCLS) { pthread_mutex_unlock(&mon_mu); return; }
        snprintf(dsets[i].name, sizeof dsets[i].name, "%s", cls);
        ndsets++;
    }
    dset_insert(i, hash);
    pthread_mutex_unlock(&mon_mu);
}

static int nsamples;
void mon_sample(const char *fmt, ...)
{
    char buf[1500];
    pthread_mutex_lock(&mon_mu);
    if (nsamples >= 6) { pthread_mutex_unlock(&mon_mu); return; }
    nsamples++;
    pthread_mutex_unlock(&mon_mu);
    va_list ap; va_start(ap, fmt);
    vsnprintf(buf, sizeof buf, fmt, ap);
    va_end(ap);
    mon_logf("SAMPLE %s", buf);
}

/* ---------------- violations ---------------- */
static uint64_t seen_viol[1024];
static int nseen, nviol_lines;

void mon_viol_key(const char *prop, const char *key, const char *detailfmt, ...)
{
    char det[1200];
    va_list ap; va_start(ap, detailfmt);
    vsnprintf(det, sizeof det, detailfmt, ap);
    va_end(ap);
    for (char *p = det; *p; p++) if (*p == '\n') *p = ' ';
    uint64_t h = mon_hash_str(key, mon_hash_str(prop, 7));
    pthread_mutex_lock(&mon_mu);
    int dup = 0;
    for (int i = 0; i < nseen; i++) if (seen_viol[i] == h) { dup = 1; break; }
    if (!dup && nseen < 1024) seen_viol[nseen++] = h;
    int emit = !dup && nviol_lines < 400;
    if (emit) nviol_lines++;
    pthread_mutex_unlock(&mon_mu);
    mon_count("violations_raw", 1);
    if (emit)
        mon_logf("VIOL %s %ld %s :: %s", prop, mon_case_idx, key, det);
}

void mon_viol(const char *prop, const char *kind, const char *detailfmt, ...)
{
    char det[1200], key[700];
    va_list ap; va_start(ap, detailfmt);
    vsnprintf(det, sizeof det, detailfmt, ap);
    va_end(ap);
    snprintf(key, sizeof key, "%s|%s|%s", prop, case_key, kind);
    mon_viol_key(prop, key, "%s", det);
}

/* ---------------- cases ---------------- */
int mon_case(const char *keyfmt, ...)
{
    mon_case_idx++;
    if (MO.only >= 0) { if (mon_case_idx != MO.only) return 0; }
    else {
        if (mon_case_idx < MO.start) return 0;
        if (MO.nshards > 1 && (mon_case_idx % MO.nshards) != MO.shard) return 0;
    }
    va_list ap; va_start(ap, keyfmt);
    vsnprintf(case_key, sizeof case_key, keyfmt, ap);
    va_end(ap);
    mon_logf("CASE %ld %s", mon_case_idx, case_key);
    case_is_setup = 0;
    return 1;
}

/* a set-up case every shard executes (instance creation, encode): skipped only
 * when an earlier attempt of this shard died in it (idx < start) */
int mon_case_all(const char *keyfmt, ...)
{
    mon_case_idx++;
    if (MO.only < 0 && mon_case_idx < MO.start) return 0;
    va_list ap; va_start(ap, keyfmt);
    vsnprintf(case_key, sizeof case_key, keyfmt, ap);
    va_end(ap);
    mon_logf("CASE %ld %s", mon_case_idx, case_key);
    case_is_setup = 1;
    return 1;
}

void mon_end(void)
{
    mon_logf("END %ld", mon_case_idx);
    if (case_is_setup) mon_count0("setup_cases", 1); else mon_count("cases", 1);
}

const char *mon_case_key(void) { return case_key; }

/* ---------------- PRNG ---------------- */
static uint64_t splitmix(uint64_t *x)
{
    uint64_t z = (*x += 0x9e3779b97f4a7c15ull);
    z = (z ^ (z >> 30)) * 0xbf58476d1ce4e5b9ull;
    z = (z ^ (z >> 27)) * 0x94d049bb133111ebull;
    return z ^ (z >> 31);
}
void rng_seed(rng_t *r, uint64_t a, uint64_t b)
{
    uint64_t x = a * 0x2545f4914f6cdd1dull + b + 0x1234567;
    for (int i = 0; i < 4; i++) r->s[i] = splitmix(&x);
}
void rng_case(rng_t *r) { rng_seed(r, MO.seed, (uint64_t)mon_case_idx); }
static inline uint64_t rotl(uint64_t x, int k) { return (x << k) | (x >> (64 - k)); }
uint64_t rng_u64(rng_t *r)
{
    uint64_t *s = r->s;
    uint64_t result = rotl(s[1] * 5, 7) * 9, t = s[1] << 17;
    s[2] ^= s[0]; s[3] ^= s[1]; s[1] ^= s[2]; s[0] ^= s[3]; s[2] ^= t; s[3] = rotl(s[3], 45);
    return result;
}
uint32_t rng_below(rng_t *r, uint32_t n) { return n ? (uint32_t)(rng_u64(r) % n) : 0; }
void rng_fill(rng_t *r, void *buf, size_t n)
{
    uint8_t *p = buf;
    while (n >= 8) { uint64_t v = rng_u64(r); memcpy(p, &v, 8); p += 8; n -= 8; }
    if (n) { uint64_t v = rng_u64(r); memcpy(p, &v, n); }
}
void rng_shuffle(rng_t *r, int *a, int n)
{
    for (int i = n - 1; i > 0; i--) { int j = (int)rng_below(r, (uint32_t)i + 1); int t = a[i]; a[i] = a[j]; a[j] = t; }
}

/* ---------------- combinations ---------------- */
void comb_first(int *c, int k) { for (int i = 0; i < k; i++) c[i] = i; }
int comb_next(int *c, int k, int n)
{
    int p = k - 1;
    while (p >= 0 && c[p] == n - k + p) p--;
    if (p < 0) return 0;
    c[p]++;
    for (int q = p + 1; q < k; q++) c[q] = c[q - 1] + 1;
    return 1;
}

/* ---------------- guarded buffers ---------------- */
#define MAXREG 8192
static struct { uint8_t *base; size_t maplen; uint8_t *p; size_t len; int used; } regs[MAXREG];
static long pagesz;

static int reg_find(const void *p)
{
    for (int i = 0; i < MAXREG; i++) if (regs[i].used && regs[i].p == p) return i;
    return -1;
}

static void *g_place(size_t len, int mode, int misalign)
{
    if (!pagesz) pagesz = sysconf(_SC_PAGESIZE);
    size_t datapages = (len + 15 + (size_t)pagesz) / (size_t)pagesz + 1;
    size_t maplen = (datapages + 2) * (size_t)pagesz;
    uint8_t *base = mmap(NULL, maplen, PROT_READ | PROT_WRITE, MAP_PRIVATE | MAP_ANONYMOUS, -1, 0);
    if (base == MAP_FAILED) { mon_logf("HARNESS mmap failed"); _exit(2); }
    mprotect(base, (size_t)pagesz, PROT_NONE);
    mprotect(base + maplen - (size_t)pagesz, (size_t)pagesz, PROT_NONE);
    uint8_t *lo = base + pagesz, *hi = base + maplen - pagesz, *p;
    memset(lo, 0xEE, (size_t)(hi - lo));
    if (mode == G_START) p = lo;
    else if (mode == G_END) p = hi - len;
    else { /* aligned/misaligned start, minimal slack before the end guard */
        p = hi - len;
        uintptr_t a = (uintptr_t)p;
        uintptr_t want = (uintptr_t)(misalign & 15);
        uintptr_t cur = a & 15;
        uintptr_t back = (cur >= want) ? (cur - want) : (cur + 16 - want);
        p -= back;
    }
    int i;
    pthread_mutex_lock(&mon_mu);
    for (i = 0; i < MAXREG; i++) if (!regs[i].used) break;
    if (i == MAXREG) { pthread_mutex_unlock(&mon_mu); mon_logf("HARNESS too many guarded regions"); _exit(2); }
    regs[i].used = 1; regs[i].base = base; regs[i].maplen = maplen; regs[i].p = p; regs[i].len = len;
    pthread_mutex_unlock(&mon_mu);
    return p;
}

void *g_alloc(size_t len, int mode) { return g_place(len, mode, 0); }
void *g_alloc_off(size_t len, int misalign) { return g_place(len, G_END16, misalign); }

void g_ro(void *p)
{
    int i = reg_find(p);
    if (i < 0) return;
    mprotect(regs[i].base + pagesz, regs[i].maplen - 2 * (size_t)pagesz, PROT_READ);
}
void g_rw(void *p)
{
    int i = reg_find(p);
    if (i < 0) return;
    mprotect(regs[i].base + pagesz, regs[i].maplen - 2 * (size_t)pagesz, PROT_READ | PROT_WRITE);
}
void g_free(void *p)
{
    if (!p) return;
    pthread_mutex_lock(&mon_mu);
    int i = reg_find(p);
    if (i >= 0) { munmap(regs[i].base, regs[i].maplen); regs[i].used = 0; }
    pthread_mutex_unlock(&mon_mu);
}
void g_free_all(void)
{
    for (int i = 0; i < MAXREG; i++) if (regs[i].used) { munmap(regs[i].base, regs[i].maplen); regs[i].used = 0; }
}
const char *g_describe(const void *addr, char *buf, size_t n)
{
    const uint8_t *a = addr;
    for (int i = 0; i < MAXREG; i++) {
        if (!regs[i].used) continue;
        if (a >= regs[i].base && a < regs[i].base + regs[i].maplen) {
            snprintf(buf, n, "guarded-region#%d len=%zu offset=%ld (%s)", i, regs[i].len, (long)(a - regs[i].p),
                     a < regs[i].p ? "before start" : (a >= regs[i].p + regs[i].len ? "past end" : "inside (read-only input written)"));
            return buf;
        }
    }
    snprintf(buf, n, "not in a guarded region");
    return buf;
}

/* ---------------- signals ---------------- */
static void dump_stats(void);
static volatile int mon_in_child; static int mon_child_pipe = -1;
volatile int mon_child_phase;
static struct sigaction old_segv, old_bus, old_fpe;
static void on_fault(int sig, siginfo_t *si, void *ctx)
{
    char d[200], line[400];
    g_describe(si->si_addr, d, sizeof d);
    int n = snprintf(line, sizeof line, "FAULT %ld sig=%d addr=%p %s\n", mon_case_idx, sig, si->si_addr, d);
    wr(line, (size_t)n);
#if !defined(__SANITIZE_THREAD__) && !defined(__SANITIZE_ADDRESS__)
    {   /* call chain by symbol name (plain builds only; the sanitizer builds print their own report) */
        void *bt[32]; int nb = backtrace(bt, 32); int o = snprintf(line, sizeof line, "FRAMES %ld", mon_case_idx);
        for (int i = 2; i < nb && o < (int)sizeof line - 64; i++) {
            Dl_info di; memset(&di, 0, sizeof di);
            if (!dladdr(bt[i], &di) || !di.dli_fname) { o += snprintf(line + o, sizeof line - (size_t)o, " ?"); continue; }
            const char *fn = strrchr(di.dli_fname, '/'); fn = fn ? fn + 1 : di.dli_fname;
            if (di.dli_sname) o += snprintf(line + o, sizeof line - (size_t)o, " %s@%.24s", di.dli_sname, fn);
            else o += snprintf(line + o, sizeof line - (size_t)o, " +0x%lx@%.24s", (unsigned long)((char *)bt[i] - (char *)di.dli_fbase), fn);
        }
        line[o++] = '\n'; wr(line, (size_t)o);
        if (mon_in_child) {
            /* forked case (mon_fork_run): tell the parent where and what; the parent decides */
            char site[96] = "?"; int got = 0;
            for (int i = 2; i < nb && !got; i++) {
                Dl_info di; memset(&di, 0, sizeof di);
                if (!dladdr(bt[i], &di) || !di.dli_fname) continue;
                const char *fn = strrchr(di.dli_fname, '/'); fn = fn ? fn + 1 : di.dli_fname;
                if (strncmp(fn, "liberasurecode", 14) && strncmp(fn, "libXorcode", 10) && strncmp(fn, "libnullcode", 11) && strncmp(fn, "libisal", 7)) continue;
                if (di.dli_sname) snprintf(site, sizeof site, "%s", di.dli_sname);
                else snprintf(site, sizeof site, "%.20s+0x%lx", fn, (unsigned long)((char *)bt[i] - (char *)di.dli_fbase));
                got = 1;
            }
            char msg[160]; int mn = snprintf(msg, sizeof msg, "%d %d %d %s\n", sig, (uintptr_t)si->si_addr < 0x10000 ? 1 : 0, mon_child_phase, site);
            if (mon_child_pipe >= 0) { ssize_t ww = write(mon_child_pipe, msg, (size_t)mn); (void)ww; }
            _exit(199);
        }
        /* save the counters of this process (they would die with it); an alarm bounds the attempt */
        static volatile int dumping;
        if (!dumping) { dumping = 1; alarm(10); dump_stats(); wr("CRASHDUMP\n", 10); alarm(0); }
    }
#endif
#if defined(__SANITIZE_THREAD__)
    /* ThreadSanitizer's own deadly-signal handling can spin for minutes when several
     * threads fault at once; the FAULT line above is all the orchestrator needs */
    _exit(128 + sig);
#endif
    struct sigaction *o = sig == SIGSEGV ? &old_segv : sig == SIGBUS ? &old_bus : &old_fpe;
    if ((o->sa_flags & SA_SIGINFO) && o->sa_sigaction) { o->sa_sigaction(sig, si, ctx); }
    signal(sig, SIG_DFL);
    raise(sig);
}

static void install_handlers(void)
{
    struct sigaction sa;
    memset(&sa, 0, sizeof sa);
    sa.sa_sigaction = on_fault;
    sa.sa_flags = SA_SIGINFO | SA_NODEFER;
    sigemptyset(&sa.sa_mask);
    { void *warm[4]; backtrace(warm, 4); }      /* loads libgcc_s now, not inside the handler */
    sigaction(SIGSEGV, &sa, &old_segv);
    sigaction(SIGBUS, &sa, &old_bus);
    sigaction(SIGFPE, &sa, &old_fpe);
}


/* ---------------- forked cases ---------------- */
#include <sys/wait.h>
int mon_fork_run(int (*fn)(void *), void *arg, mon_child_t *out)
{
    memset(out, 0, sizeof *out);
    int pfd[2]; if (pipe(pfd)) return -1;
    pid_t pid = fork();
    if (pid < 0) { close(pfd[0]); close(pfd[1]); return -1; }
    if (pid == 0) {
        close(pfd[0]); mon_in_child = 1; mon_child_pipe = pfd[1];
        alarm(120);
        int r = fn(arg);
        _exit(r & 0x7f);
    }
    close(pfd[1]);
    char buf[200]; ssize_t n = 0, got;
    while ((got = read(pfd[0], buf + n, sizeof buf - 1 - (size_t)n)) > 0) n += got;
    buf[n > 0 ? n : 0] = 0; close(pfd[0]);
    int st = 0; while (waitpid(pid, &st, 0) < 0 && errno == EINTR) ;
    if (WIFEXITED(st) && WEXITSTATUS(st) == 199 && n > 0) {
        out->faulted = 1; int sg = 0, np = 0, ph = 0; char site[96] = "?";
        sscanf(buf, "%d %d %d %95s", &sg, &np, &ph, site);
        out->sig = sg; out->nullpage = np; out->phase = ph; snprintf(out->site, sizeof out->site, "%s", site);
        return 0;
    }
    if (WIFSIGNALED(st)) { out->faulted = 1; out->sig = WTERMSIG(st); snprintf(out->site, sizeof out->site, "?"); return 0; }
    out->status = WIFEXITED(st) ? WEXITSTATUS(st) : -1;
    return 0;
}

/* ---------------- options ---------------- */
void mon_init(int argc, char **argv)
{
    for (int i = 1; i < argc; i++) {
        const char *a = argv[i];
        const char *v = (i + 1 < argc) ? argv[i + 1] : "";
        if (!strcmp(a, "--seed")) { MO.seed = strtoull(v, 0, 0); i++; }
        else if (!strcmp(a, "--tier")) { MO.thorough = !strcmp(v, "thorough"); i++; }
        else if (!strcmp(a, "--shard")) { sscanf(v, "%d/%d", &MO.shard, &MO.nshards); i++; }
        else if (!strcmp(a, "--start")) { MO.start = atol(v); i++; }
        else if (!strcmp(a, "--only")) { MO.only = atol(v); i++; }
        else if (!strcmp(a, "--prop")) { MO.prop = v; i++; }
        else if (!strcmp(a, "--mode")) { MO.mode = v; i++; }
        else if (!strcmp(a, "--noise")) { MO.noise = atoi(v); i++; }
        else if (!strcmp(a, "--arg1")) { MO.arg1 = atol(v); i++; }
        else if (!strcmp(a, "--arg2")) { MO.arg2 = atol(v); i++; }
        else if (!strcmp(a, "--dist")) { MO.distpath = v; i++; }
        else if (!strcmp(a, "--verbose")) { MO.verbose = 1; }
        else if (!strcmp(a, "--log")) {
            int fd = open(v, O_WRONLY | O_CREAT | O_APPEND, 0644);
            if (fd < 0) { perror("open log"); exit(2); }
            MO.logfd = fd; i++;
        }
    }
    install_handlers();
    mon_logf("START prop=%s mode=%s seed=%llu tier=%s shard=%d/%d start=%ld only=%ld",
             MO.prop, MO.mode, (unsigned long long)MO.seed, MO.thorough ? "thorough" : "quick",
             MO.shard, MO.nshards, MO.start, MO.only);
}

static void dump_stats(void);

/* planned restart (e.g. after LeakSanitizer reported at a quiescent point: the
 * report would repeat for ever otherwise): close the case, dump counters, exit 77;
 * the orchestrator resumes after this case without recording a crash */
void mon_restart(void)
{
    mon_logf("END %ld", mon_case_idx);
    dump_stats();
    mon_logf("RESTART %ld", mon_case_idx);
    _exit(77);
}

void mon_finish(void)
{
    dump_stats();
    mon_logf("DONE");
}

static void dump_stats(void)
{
    for (int i = 0; i < nstats; i++) mon_logf("STAT %s %ld", stats[i].name, stats[i].v);
    for (int c = 0; c < ndsets; c++) {
        mon_logf("DIST %s %zu", dsets[c].name, dsets[c].n);
        if (MO.distpath) {
            char path[600];
            snprintf(path, sizeof path, "%s.%s", MO.distpath, dsets[c].name);
            FILE *f = fopen(path, "ab");
            if (f) {
                for (size_t i = 0; i < dsets[c].cap; i++)
                    if (dsets[c].tab[i]) fwrite(&dsets[c].tab[i], 8, 1, f);
                fclose(f);
            }
        }
    }
}
