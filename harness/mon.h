/* Monitor infrastructure shared by all drivers: options, event log, PRNG,
 * guarded buffers, violation/statistics reporting. */
#ifndef VERIF_MON_H
#define VERIF_MON_H
#include <stdint.h>
#include <stddef.h>
#include <stdarg.h>

typedef struct {
    uint64_t seed;
    int thorough;
    int shard, nshards;
    long start;          /* skip cases with index < start */
    long only;           /* run only this case index (replay), -1 = all */
    const char *prop;    /* property id selecting the workload */
    const char *mode;    /* driver-specific sub-mode */
    int logfd;
    const char *distpath;
    int verbose;
    long arg1, arg2;     /* driver-specific numbers */
    int noise;           /* 1: run the noise thread (lec.c) alongside the workload */
} mon_opts_t;
extern mon_opts_t MO;

void mon_init(int argc, char **argv);
void mon_finish(void);                 /* dump stats, "DONE" */
void mon_restart(void);                /* planned restart after the current case (exit 77) */

/* ---- cases ---- */
extern long mon_case_idx;              /* index of the current/last case */
int  mon_case(const char *keyfmt, ...) __attribute__((format(printf, 1, 2)));
int  mon_case_all(const char *keyfmt, ...) __attribute__((format(printf, 1, 2)));
void mon_end(void);
const char *mon_case_key(void);

/* ---- reporting ---- */
void mon_viol(const char *prop, const char *kind, const char *detailfmt, ...) __attribute__((format(printf, 3, 4)));
void mon_viol_key(const char *prop, const char *key, const char *detailfmt, ...) __attribute__((format(printf, 3, 4)));
void mon_count(const char *name, long n);
void mon_count0(const char *name, long n);   /* counted by shard 0 only (per-config facts every shard sees) */
void mon_distinct(const char *cls, uint64_t hash);
void mon_sample(const char *fmt, ...) __attribute__((format(printf, 1, 2)));
void mon_logf(const char *fmt, ...) __attribute__((format(printf, 1, 2)));
uint64_t mon_hash(const void *p, size_t n, uint64_t h);
uint64_t mon_hash_str(const char *s, uint64_t h);
uint64_t mon_hash_u64(uint64_t v, uint64_t h);

/* ---- PRNG (xoshiro256**) ---- */
typedef struct { uint64_t s[4]; } rng_t;
void rng_seed(rng_t *r, uint64_t a, uint64_t b);
void rng_case(rng_t *r);               /* seeded from (MO.seed, current case index) */
uint64_t rng_u64(rng_t *r);
uint32_t rng_below(rng_t *r, uint32_t n);
void rng_fill(rng_t *r, void *buf, size_t n);
void rng_shuffle(rng_t *r, int *a, int n);

/* ---- guarded buffers ---- */
#define G_END   0   /* buffer ends exactly at a PROT_NONE page */
#define G_START 1   /* buffer starts exactly after a PROT_NONE page */
#define G_END16 2   /* 16-byte aligned start, at most 15 bytes of slack before the guard */
void *g_alloc(size_t len, int mode);
void *g_alloc_off(size_t len, int misalign); /* start address = 16n + misalign, guard after (<=15 slack) */
void  g_ro(void *p);                   /* make the data pages read-only */
void  g_rw(void *p);
void  g_free(void *p);
void  g_free_all(void);
const char *g_describe(const void *addr, char *buf, size_t n);

/* ---- forked cases: run fn(arg) in a child process (fault isolation without restarting the shard).
 * The child shares the log; its counters are lost, so fn reports through its return value (0..127). ---- */
typedef struct { int status; int faulted; int sig; int nullpage; int phase; char site[96]; } mon_child_t;
extern volatile int mon_child_phase;   /* set by the child's code; reported with a fault (e.g. 0 = during the injected call, 1 = afterwards) */
int mon_fork_run(int (*fn)(void *), void *arg, mon_child_t *out);

/* combinations: first/next k-subset of [0,n) in lexicographic order */
void comb_first(int *c, int k);
int  comb_next(int *c, int k, int n);

#endif
