/* Clean-room reference implementation of the ISA-L erasure-code primitives the
 * liberasurecode adapters bind by dlsym (soname libisal.so.2), written from
 * ISA-L's documented semantics: GF(2^8) with polynomial 0x11d, 32-byte
 * low/high-nibble product tables per coefficient.
 *
 * Verification extras (not part of ISA-L):
 *   isal_ref_fail_invert_at   - 1-based countdown; when it reaches 1 the next
 *                               gf_invert_matrix call reports failure (-1)
 *   isal_ref_invert_calls     - number of gf_invert_matrix calls so far
 */
#include <string.h>
#include <stdlib.h>

/* ISAL_REF_VARIANT (environment, read once): a second library that is just as conformant to the documented interface -
 *   1: gf_invert_matrix leaves its (documented: "destroyed") input filled with 0xEE instead of the identity; the 32-byte
 *      expanded table of a coefficient keeps the coefficient in byte 0 and junk elsewhere (the table format is the
 *      library's own business); ec_encode_data walks rows and bytes backwards;
 *   2: gf_invert_matrix does not touch its input at all (a library is free to work on a copy).
 * The adapters must work with every one of them. */
static int variant(void)
{
    static int v = -1;
    int x = __atomic_load_n(&v, __ATOMIC_RELAXED);
    if (x < 0) { const char *e = getenv("ISAL_REF_VARIANT"); x = e ? atoi(e) : 0; __atomic_store_n(&v, x, __ATOMIC_RELAXED); }
    return x;
}

int isal_ref_fail_invert_at = 0;
long isal_ref_invert_calls = 0;
long isal_ref_encode_calls = 0;

unsigned char gf_mul(unsigned char a, unsigned char b)
{
    unsigned r = 0, x = a, y = b;
    while (y) {
        if (y & 1) r ^= x;
        y >>= 1;
        x <<= 1;
        if (x & 0x100) x ^= 0x11d;
    }
    return (unsigned char)r;
}

unsigned char gf_inv(unsigned char a)
{
    unsigned char r = 1, p = a;
    unsigned e = 254;
    if (a == 0) return 0;
    while (e) {
        if (e & 1) r = gf_mul(r, p);
        p = gf_mul(p, p);
        e >>= 1;
    }
    return r;
}

void gf_gen_rs_matrix(unsigned char *a, int m, int k)
{
    int i, j;
    unsigned char p, gen = 1;
    memset(a, 0, (size_t)k * (size_t)m);
    for (i = 0; i < k; i++) a[k * i + i] = 1;
    for (i = k; i < m; i++) {
        p = 1;
        for (j = 0; j < k; j++) {
            a[k * i + j] = p;
            p = gf_mul(p, gen);
        }
        gen = gf_mul(gen, 2);
    }
}

void gf_gen_cauchy1_matrix(unsigned char *a, int m, int k)
{
    int i, j;
    unsigned char *p;
    memset(a, 0, (size_t)k * (size_t)m);
    for (i = 0; i < k; i++) a[k * i + i] = 1;
    p = &a[k * k];
    for (i = k; i < m; i++)
        for (j = 0; j < k; j++) *p++ = gf_inv((unsigned char)(i ^ j));
}

int gf_invert_matrix(unsigned char *in_mat, unsigned char *out_mat, const int n)
{
    int i, j, k;
    unsigned char temp;

    /* relaxed atomics: the counters are monitor state and must not look like a
     * race of the code under test (nor add a happens-before edge) */
    __atomic_fetch_add(&isal_ref_invert_calls, 1, __ATOMIC_RELAXED);
    if (__atomic_load_n(&isal_ref_fail_invert_at, __ATOMIC_RELAXED) > 0 &&
        __atomic_sub_fetch(&isal_ref_fail_invert_at, 1, __ATOMIC_RELAXED) == 0)
        return -1;

    unsigned char copy[32 * 32], *orig_in = in_mat;
    if (variant() == 2 && n <= 32) { memcpy(copy, in_mat, (size_t)n * (size_t)n); in_mat = copy; }
    for (i = 0; i < n * n; i++) out_mat[i] = 0;
    for (i = 0; i < n; i++) out_mat[i * n + i] = 1;

    for (i = 0; i < n; i++) {
        if (in_mat[i * n + i] == 0) {
            for (j = i + 1; j < n; j++)
                if (in_mat[j * n + i]) break;
            if (j == n) return -1;      /* singular */
            for (k = 0; k < n; k++) {
                temp = in_mat[i * n + k]; in_mat[i * n + k] = in_mat[j * n + k]; in_mat[j * n + k] = temp;
                temp = out_mat[i * n + k]; out_mat[i * n + k] = out_mat[j * n + k]; out_mat[j * n + k] = temp;
            }
        }
        temp = gf_inv(in_mat[i * n + i]);
        for (j = 0; j < n; j++) {
            in_mat[i * n + j] = gf_mul(in_mat[i * n + j], temp);
            out_mat[i * n + j] = gf_mul(out_mat[i * n + j], temp);
        }
        for (j = 0; j < n; j++) {
            if (j == i) continue;
            temp = in_mat[j * n + i];
            for (k = 0; k < n; k++) {
                out_mat[j * n + k] ^= gf_mul(temp, out_mat[i * n + k]);
                in_mat[j * n + k] ^= gf_mul(temp, in_mat[i * n + k]);
            }
        }
    }
    if (variant() == 1) memset(orig_in, 0xEE, (size_t)n * (size_t)n);
    return 0;
}

/* 32-byte table for coefficient c: tbl[i] = c*i (i<16), tbl[16+i] = c*(i<<4) */
static void vect_mul_init(unsigned char c, unsigned char *tbl)
{
    for (int i = 0; i < 16; i++) {
        tbl[i] = gf_mul(c, (unsigned char)i);
        tbl[16 + i] = gf_mul(c, (unsigned char)(i << 4));
    }
}

void ec_init_tables(int k, int rows, unsigned char *a, unsigned char *g_tbls)
{
    for (int i = 0; i < rows; i++)
        for (int j = 0; j < k; j++) {
            if (variant() == 1) { memset(g_tbls, 0x5C, 32); g_tbls[0] = *a++; }
            else vect_mul_init(*a++, g_tbls);
            g_tbls += 32;
        }
}

void ec_encode_data(int len, int k, int rows, unsigned char *g_tbls,
                    unsigned char **data, unsigned char **coding)
{
    __atomic_fetch_add(&isal_ref_encode_calls, 1, __ATOMIC_RELAXED);
    if (variant() == 1) {
        for (int l = rows - 1; l >= 0; l--)
            for (int i = len - 1; i >= 0; i--) {
                unsigned char s = 0;
                for (int j = k - 1; j >= 0; j--) s ^= gf_mul(g_tbls[((size_t)l * (size_t)k + (size_t)j) * 32], data[j][i]);
                coding[l][i] = s;
            }
        return;
    }
    for (int l = 0; l < rows; l++) {
        for (int i = 0; i < len; i++) {
            unsigned char s = 0;
            for (int j = 0; j < k; j++) {
                const unsigned char *t = g_tbls + ((size_t)l * (size_t)k + (size_t)j) * 32;
                unsigned char v = data[j][i];
                s ^= t[v & 0x0f] ^ t[16 + (v >> 4)];
            }
            coding[l][i] = s;
        }
    }
}
