/* Clean-room stand-in for libJerasure.so.2 (verif-owned; not derived from Jerasure's sources).
 *
 * It implements, from their documented meaning, the entry points the two liberasurecode
 * adapters bind with dlsym:
 *   jerasure_rs_vand  : reed_sol_vandermonde_coding_matrix, jerasure_matrix_encode, jerasure_matrix_decode,
 *                       jerasure_make_decoding_matrix, jerasure_erasures_to_erased, jerasure_matrix_dotprod,
 *                       galois_uninit_field
 *   jerasure_rs_cauchy: cauchy_original_coding_matrix, jerasure_matrix_to_bitmatrix,
 *                       jerasure_smart_bitmatrix_to_schedule, jerasure_bitmatrix_encode, jerasure_bitmatrix_decode,
 *                       jerasure_make_decoding_bitmatrix, jerasure_bitmatrix_dotprod, jerasure_erasures_to_erased,
 *                       galois_uninit_field
 * Conventions (Jerasure 2.0 manual): a coding matrix is m x k ints, row-major; device ids 0..k-1 are data,
 * k..k+m-1 coding; `erasures` is a -1 terminated id list; `erased` is a k+m array of 0/1; a bit-matrix is
 * (m*w) x (k*w) ints (0/1), element e of the matrix expands to the w x w block whose column x holds the bits of
 * e * 2^x; with bit-matrices every device is a sequence of w packets of `packetsize` bytes per `w*packetsize`
 * stretch of the buffer.  Words are little-endian w-bit integers.
 *
 * The coding matrices are Cauchy matrices (any k rows of [I; M] are independent whenever k+m <= 2^w):
 *   reed_sol_vandermonde_coding_matrix : M[i][j] = 1 / ((k+i) xor j)
 *   cauchy_original_coding_matrix      : M[i][j] = 1 / (i xor (m+j))
 * Fields: GF(2^w) for w in {4,8,16,32} with polynomials 0x13, 0x11d, 0x1100b, 0x100400007; other w: NULL / -1.
 * Arithmetic here goes through log/antilog tables (w <= 16) or carry-less multiply + reduction (w = 32); the
 * monitors' model (ref/ref.c) uses shift-and-xor only. */
#include <stdlib.h>
#include <string.h>
#include <stdint.h>
#include <pthread.h>

static const uint64_t POLY[33] = { [4] = 0x13, [8] = 0x11d, [16] = 0x1100b, [32] = 0x100400007ull };
static int L4[16], E4[32], L8[256], E8[512], L16[65536], E16[131072];
static int *const LOGT[17] = { [4] = L4, [8] = L8, [16] = L16 };
static int *const EXPT[17] = { [4] = E4, [8] = E8, [16] = E16 };
static int ready[17];
static pthread_mutex_t tl = PTHREAD_MUTEX_INITIALIZER;
static long calls[16];
long jer_ref_calls(int i) { return __atomic_load_n(&calls[i & 15], __ATOMIC_RELAXED); }
#define COUNT(i) __atomic_fetch_add(&calls[i], 1, __ATOMIC_RELAXED)

static int field_ok(int w) { return w == 4 || w == 8 || w == 16 || w == 32; }

/* static tables, built once per field (nothing of this stand-in stays allocated between calls) */
static int tables(int w)
{
    if (w > 16) return 0;
    if (__atomic_load_n(&ready[w], __ATOMIC_ACQUIRE)) return 0;
    pthread_mutex_lock(&tl);
    if (!ready[w]) {
        int n = 1 << w; int *lg = LOGT[w], *ex = EXPT[w];
        uint32_t v = 1;
        for (int i = 0; i < n - 1; i++) { ex[i] = (int)v; ex[i + n - 1] = (int)v; lg[v] = i; v <<= 1; if (v & (uint32_t)n) v ^= (uint32_t)POLY[w]; }
        lg[0] = -1; ex[2 * n - 2] = ex[0]; ex[2 * n - 1] = ex[1];
        __atomic_store_n(&ready[w], 1, __ATOMIC_RELEASE);
    }
    pthread_mutex_unlock(&tl);
    return 0;
}

static uint32_t mul32(uint32_t a, uint32_t b)
{
    uint64_t p = 0;
    for (int i = 0; i < 32; i++) if (b >> i & 1) p ^= (uint64_t)a << i;
    for (int i = 63; i >= 32; i--) if (p >> i & 1) p ^= POLY[32] << (i - 32);
    return (uint32_t)p;
}

static uint32_t gmul(uint32_t a, uint32_t b, int w)
{
    if (!a || !b) return 0;
    if (w == 32) return mul32(a, b);
    return (uint32_t)EXPT[w][LOGT[w][a] + LOGT[w][b]];
}

static uint32_t ginv(uint32_t a, int w)
{
    if (w == 32) { /* a^(2^32-2) */ uint32_t r = 1, s = a; for (int i = 1; i < 32; i++) { s = mul32(s, s); r = mul32(r, s); } return r; }
    int n = (1 << w) - 1;
    return (uint32_t)EXPT[w][(n - LOGT[w][a]) % n];
}

void galois_uninit_field(int w) { COUNT(0); (void)w; /* the tables of this stand-in live for the process */ }

static int *cauchy(int k, int m, int w, int vand)
{
    if (k < 1 || m < 0 || !field_ok(w) || (w < 31 && k + m > (1 << w)) || tables(w)) return NULL;
    int *mat = malloc(sizeof(int) * (size_t)(m ? m : 1) * (size_t)k);
    if (!mat) return NULL;
    for (int i = 0; i < m; i++) for (int j = 0; j < k; j++)
        mat[i * k + j] = (int)ginv(vand ? (uint32_t)((k + i) ^ j) : (uint32_t)(i ^ (m + j)), w);
    return mat;
}
int *reed_sol_vandermonde_coding_matrix(int k, int m, int w) { COUNT(1); return cauchy(k, m, w, 1); }
int *cauchy_original_coding_matrix(int k, int m, int w) { COUNT(2); return cauchy(k, m, w, 0); }

int *jerasure_erasures_to_erased(int k, int m, int *erasures)
{
    COUNT(3);
    int n = k + m, cnt = 0;
    int *e = calloc((size_t)n, sizeof(int));
    if (!e) return NULL;
    for (int i = 0; erasures[i] != -1; i++) {
        if (erasures[i] < 0 || erasures[i] >= n) { free(e); return NULL; }
        if (!e[erasures[i]]) { e[erasures[i]] = 1; if (++cnt > m) { free(e); return NULL; } }
    }
    return e;
}

/* ---- word matrices ---- */
static uint32_t ldw(const char *p, int w, size_t i)
{
    const uint8_t *q = (const uint8_t *)p;
    if (w == 8) return q[i];
    if (w == 16) return (uint32_t)q[2 * i] | (uint32_t)q[2 * i + 1] << 8;
    if (w == 32) return (uint32_t)q[4 * i] | (uint32_t)q[4 * i + 1] << 8 | (uint32_t)q[4 * i + 2] << 16 | (uint32_t)q[4 * i + 3] << 24;
    /* w == 4: two elements per byte, low nibble first */
    return (q[i / 2] >> ((i & 1) * 4)) & 15u;
}
static void stw(char *p, int w, size_t i, uint32_t v)
{
    uint8_t *q = (uint8_t *)p;
    if (w == 8) q[i] = (uint8_t)v;
    else if (w == 16) { q[2 * i] = (uint8_t)v; q[2 * i + 1] = (uint8_t)(v >> 8); }
    else if (w == 32) { q[4 * i] = (uint8_t)v; q[4 * i + 1] = (uint8_t)(v >> 8); q[4 * i + 2] = (uint8_t)(v >> 16); q[4 * i + 3] = (uint8_t)(v >> 24); }
    else q[i / 2] = (uint8_t)((q[i / 2] & ~(15u << ((i & 1) * 4))) | (v & 15u) << ((i & 1) * 4));
}
static size_t nwords(int size, int w) { return (size_t)size * 8 / (size_t)w; }

static char *dev(int id, int k, char **data, char **coding) { return id < k ? data[id] : coding[id - k]; }

void jerasure_matrix_dotprod(int k, int w, int *row, int *src_ids, int dest_id, char **data, char **coding, int size)
{
    COUNT(4);
    if (!field_ok(w) || tables(w)) return;
    char *d = dev(dest_id, k, data, coding);
    size_t nw = nwords(size, w);
    for (size_t x = 0; x < nw; x++) {
        uint32_t acc = 0;
        for (int j = 0; j < k; j++) if (row[j]) acc ^= gmul((uint32_t)row[j], ldw(dev(src_ids ? src_ids[j] : j, k, data, coding), w, x), w);
        stw(d, w, x, acc);
    }
}

void jerasure_matrix_encode(int k, int m, int w, int *matrix, char **data, char **coding, int size)
{
    COUNT(5);
    for (int i = 0; i < m; i++) jerasure_matrix_dotprod(k, w, matrix + i * k, NULL, k + i, data, coding, size);
}

/* invert the k x k matrix `a` over GF(2^w) into `inv`; 0 ok, -1 singular */
static int invert(int *a, int *inv, int k, int w)
{
    for (int i = 0; i < k; i++) for (int j = 0; j < k; j++) inv[i * k + j] = i == j;
    for (int c = 0; c < k; c++) {
        int p = -1;
        for (int r = c; r < k; r++) if (a[r * k + c]) { p = r; break; }
        if (p < 0) return -1;
        if (p != c) for (int j = 0; j < k; j++) { int t = a[c * k + j]; a[c * k + j] = a[p * k + j]; a[p * k + j] = t; t = inv[c * k + j]; inv[c * k + j] = inv[p * k + j]; inv[p * k + j] = t; }
        uint32_t iv = ginv((uint32_t)a[c * k + c], w);
        for (int j = 0; j < k; j++) { a[c * k + j] = (int)gmul((uint32_t)a[c * k + j], iv, w); inv[c * k + j] = (int)gmul((uint32_t)inv[c * k + j], iv, w); }
        for (int r = 0; r < k; r++) if (r != c && a[r * k + c]) {
            uint32_t f = (uint32_t)a[r * k + c];
            for (int j = 0; j < k; j++) { a[r * k + j] ^= (int)gmul(f, (uint32_t)a[c * k + j], w); inv[r * k + j] ^= (int)gmul(f, (uint32_t)inv[c * k + j], w); }
        }
    }
    return 0;
}

int jerasure_make_decoding_matrix(int k, int m, int w, int *matrix, int *erased, int *decoding_matrix, int *dm_ids)
{
    COUNT(6);
    if (!field_ok(w) || tables(w)) return -1;
    int j = 0;
    for (int i = 0; i < k + m && j < k; i++) if (!erased[i]) dm_ids[j++] = i;
    if (j < k) return -1;
    int *tmp = malloc(sizeof(int) * (size_t)k * (size_t)k);
    if (!tmp) return -1;
    for (int i = 0; i < k; i++) {
        if (dm_ids[i] < k) { for (int c = 0; c < k; c++) tmp[i * k + c] = 0; tmp[i * k + dm_ids[i]] = 1; }
        else for (int c = 0; c < k; c++) tmp[i * k + c] = matrix[(dm_ids[i] - k) * k + c];
    }
    int rc = invert(tmp, decoding_matrix, k, w);
    free(tmp);
    return rc;
}

int jerasure_matrix_decode(int k, int m, int w, int *matrix, int row_k_ones, int *erasures, char **data, char **coding, int size)
{
    COUNT(7); (void)row_k_ones;
    if (!field_ok(w) || tables(w)) return -1;
    int *erased = jerasure_erasures_to_erased(k, m, erasures);
    if (!erased) return -1;
    int lost_data = 0, rc = 0;
    for (int i = 0; i < k; i++) lost_data += erased[i];
    if (lost_data) {
        int *dm = malloc(sizeof(int) * (size_t)k * (size_t)k), *ids = malloc(sizeof(int) * (size_t)k);
        if (!dm || !ids || jerasure_make_decoding_matrix(k, m, w, matrix, erased, dm, ids)) rc = -1;
        else for (int i = 0; i < k; i++) if (erased[i]) jerasure_matrix_dotprod(k, w, dm + i * k, ids, i, data, coding, size);
        free(dm); free(ids);
    }
    for (int i = 0; i < m && rc == 0; i++) if (erased[k + i]) jerasure_matrix_dotprod(k, w, matrix + i * k, NULL, k + i, data, coding, size);
    free(erased);
    return rc;
}

/* ---- bit matrices ---- */
int *jerasure_matrix_to_bitmatrix(int k, int m, int w, int *matrix)
{
    COUNT(8);
    if (!matrix || !field_ok(w) || tables(w)) return NULL;
    int *bm = malloc(sizeof(int) * (size_t)(m ? m : 1) * (size_t)k * (size_t)w * (size_t)w);
    if (!bm) return NULL;
    int rowlen = k * w;
    for (int i = 0; i < m; i++) for (int j = 0; j < k; j++) {
        uint32_t e = (uint32_t)matrix[i * k + j];
        for (int x = 0; x < w; x++) {                       /* column x of the block: bits of e * 2^x */
            for (int l = 0; l < w; l++) bm[(i * w + l) * rowlen + j * w + x] = (int)(e >> l & 1);
            e = gmul(e, 2, w);
        }
    }
    return bm;
}

/* a schedule the adapter only stores and frees: operations {src dev, src packet, dst dev, dst packet, op}, ended by
 * an entry whose first int is -1 */
int **jerasure_smart_bitmatrix_to_schedule(int k, int m, int w, int *bitmatrix)
{
    COUNT(9);
    if (!bitmatrix) return NULL;
    int rowlen = k * w; size_t ops = 0;
    for (int r = 0; r < m * w; r++) for (int c = 0; c < rowlen; c++) ops += bitmatrix[r * rowlen + c] != 0;
    int **s = malloc(sizeof(int *) * (ops + 1));
    if (!s) return NULL;
    size_t o = 0;
    for (int r = 0; r < m * w; r++) { int first = 1; for (int c = 0; c < rowlen; c++) if (bitmatrix[r * rowlen + c]) {
        int *e = malloc(sizeof(int) * 5);
        if (!e) { while (o) free(s[--o]); free(s); return NULL; }
        e[0] = c / w; e[1] = c % w; e[2] = k + r / w; e[3] = r % w; e[4] = !first; first = 0; s[o++] = e; } }
    int *end = malloc(sizeof(int) * 5);
    if (!end) { while (o) free(s[--o]); free(s); return NULL; }
    end[0] = -1; end[1] = end[2] = end[3] = end[4] = 0; s[o] = end;
    return s;
}

static void xor_region(char *d, const char *s, int n) { for (int i = 0; i < n; i++) d[i] ^= s[i]; }

void jerasure_bitmatrix_dotprod(int k, int w, int *rows, int *src_ids, int dest_id, char **data, char **coding, int size, int packetsize)
{
    COUNT(10);
    int rowlen = k * w;
    char *d = dev(dest_id, k, data, coding);
    for (long off = 0; off + (long)w * packetsize <= (long)size; off += (long)w * packetsize)
        for (int r = 0; r < w; r++) {
            char *dp = d + off + (long)r * packetsize;
            memset(dp, 0, (size_t)packetsize);
            for (int c = 0; c < rowlen; c++) if (rows[r * rowlen + c])
                xor_region(dp, dev(src_ids ? src_ids[c / w] : c / w, k, data, coding) + off + (long)(c % w) * packetsize, packetsize);
        }
}

void jerasure_bitmatrix_encode(int k, int m, int w, int *bitmatrix, char **data, char **coding, int size, int packetsize)
{
    COUNT(11);
    for (int i = 0; i < m; i++) jerasure_bitmatrix_dotprod(k, w, bitmatrix + i * w * k * w, NULL, k + i, data, coding, size, packetsize);
}

/* invert a (k*w) x (k*w) 0/1 matrix */
static int invert_bits(int *a, int *inv, int n)
{
    for (int i = 0; i < n; i++) for (int j = 0; j < n; j++) inv[i * n + j] = i == j;
    for (int c = 0; c < n; c++) {
        int p = -1;
        for (int r = c; r < n; r++) if (a[r * n + c]) { p = r; break; }
        if (p < 0) return -1;
        if (p != c) for (int j = 0; j < n; j++) { int t = a[c * n + j]; a[c * n + j] = a[p * n + j]; a[p * n + j] = t; t = inv[c * n + j]; inv[c * n + j] = inv[p * n + j]; inv[p * n + j] = t; }
        for (int r = 0; r < n; r++) if (r != c && a[r * n + c]) for (int j = 0; j < n; j++) { a[r * n + j] ^= a[c * n + j]; inv[r * n + j] ^= inv[c * n + j]; }
    }
    return 0;
}

int jerasure_make_decoding_bitmatrix(int k, int m, int w, int *bitmatrix, int *erased, int *decoding_matrix, int *dm_ids)
{
    COUNT(12);
    int j = 0, n = k * w;
    for (int i = 0; i < k + m && j < k; i++) if (!erased[i]) dm_ids[j++] = i;
    if (j < k) return -1;
    int *tmp = malloc(sizeof(int) * (size_t)n * (size_t)n);
    if (!tmp) return -1;
    for (int i = 0; i < k; i++) for (int r = 0; r < w; r++) {
        int *row = tmp + (i * w + r) * n;
        if (dm_ids[i] < k) { memset(row, 0, sizeof(int) * (size_t)n); row[dm_ids[i] * w + r] = 1; }
        else memcpy(row, bitmatrix + ((dm_ids[i] - k) * w + r) * n, sizeof(int) * (size_t)n);
    }
    int rc = invert_bits(tmp, decoding_matrix, n);
    free(tmp);
    return rc;
}

int jerasure_bitmatrix_decode(int k, int m, int w, int *bitmatrix, int row_k_ones, int *erasures, char **data, char **coding, int size, int packetsize)
{
    COUNT(13); (void)row_k_ones;
    int *erased = jerasure_erasures_to_erased(k, m, erasures);
    if (!erased) return -1;
    int lost_data = 0, rc = 0, n = k * w;
    for (int i = 0; i < k; i++) lost_data += erased[i];
    if (lost_data) {
        int *dm = malloc(sizeof(int) * (size_t)n * (size_t)n), *ids = malloc(sizeof(int) * (size_t)k);
        if (!dm || !ids || jerasure_make_decoding_bitmatrix(k, m, w, bitmatrix, erased, dm, ids)) rc = -1;
        else for (int i = 0; i < k; i++) if (erased[i]) jerasure_bitmatrix_dotprod(k, w, dm + i * w * n, ids, i, data, coding, size, packetsize);
        free(dm); free(ids);
    }
    for (int i = 0; i < m && rc == 0; i++) if (erased[k + i]) jerasure_bitmatrix_dotprod(k, w, bitmatrix + i * w * n, NULL, k + i, data, coding, size, packetsize);
    free(erased);
    return rc;
}
