/* Stand-in libphazr.so.1 for the verification harness (verif-owned; NOT the Phazr.IO product, whose interface is not
 * public).  The contract implemented here is the one liberasurecode's adapter (src/backends/phazrio/libphazr.c) relies on:
 *
 *   char *create_precoding_matrix(int k), *create_inverse_precoding_matrix(int k), *create_kmux_matrix(int k, int m, int w)
 *        malloc'ed objects the adapter keeps and releases with free();
 *   int matrix_encode(char *pre, char *kmux, char **bufs, int k, int m, int w, int hd, int blocksize, int padding_size)
 *        every buffer holds blocksize + padding_size bytes; the front end put the plain data of data buffer i at offset
 *        padding_size ("encode offset"); on return every buffer holds its fragment: blocksize payload bytes followed by
 *        padding_size bytes owned by the backend;
 *   int matrix_decode(char *inv, char *kmux, char **bufs, int *missing (-1 terminated), k, m, w, hd, blocksize, padding_size)
 *        rebuilds the missing buffers; afterwards the first blocksize bytes of every data buffer are the plain data;
 *   int matrix_reconstruct(char *kmux, char **bufs, int *missing, int destination, k, m, w, blocksize, padding_size)
 *   return 0 on success, negative otherwise.
 * The code is the systematic GF(2^8) Cauchy code of the other stand-ins (rows 1/(r xor j)), so the harness' GF(2^8) model
 * predicts every payload byte; the backend-owned tail of fragment i is the pattern 0xC3 ^ 5i ^ 3b.  What matters to the
 * properties is the front end's handling of a backend whose per-fragment metadata size depends on the payload size and whose
 * encode offset is not zero. */
#include <string.h>
#include <stdlib.h>
#include <stddef.h>

long phazr_ref_encode_calls, phazr_ref_decode_calls, phazr_ref_reconst_calls;

static unsigned char mul(unsigned char a, unsigned char b)
{
    unsigned r = 0, x = a, y = b;
    while (y) { if (y & 1) r ^= x; y >>= 1; x <<= 1; if (x & 0x100) x ^= 0x11d; }
    return (unsigned char)r;
}
static unsigned char inv(unsigned char a)
{
    unsigned char r = 1;            /* a^254 */
    for (int i = 0; i < 254; i++) r = mul(r, a);
    return r;
}
/* generator row r (0..k+m-1), column j (0..k-1): identity on top, 1/(r ^ j) below */
static unsigned char gen(int k, int r, int j) { return r < k ? (unsigned char)(r == j) : inv((unsigned char)(r ^ j)); }

/* (no thread-local state in this plug-in: it is unmapped with its last instance, and LeakSanitizer's scan of a thread's TLS
 *  blocks does not survive a module with TLS that has gone) */
static void trailer(char *buf, size_t blocksize, int idx, int tlen)
{
    for (int b = 0; b < tlen; b++) buf[blocksize + (size_t)b] = (char)(0xC3 ^ (idx * 5) ^ (b * 3));
}

/* recover all data payloads from any k available rows (Gaussian elimination over GF(2^8)) */
static int recover_data(char **bufs, size_t blocksize, const int *missing, int nmissing, int k, int m, unsigned char **tmpdata)
{
    int n = k + m, avail[256], na = 0;
    unsigned char is_missing[256]; memset(is_missing, 0, sizeof is_missing);
    for (int i = 0; i < nmissing; i++) if (missing[i] >= 0 && missing[i] < n) is_missing[missing[i]] = 1;
    for (int i = 0; i < n && na < k; i++) if (!is_missing[i]) avail[na++] = i;
    if (na < k) return 2;
    unsigned char *A = malloc((size_t)k * (size_t)k), *I = malloc((size_t)k * (size_t)k);
    if (!A || !I) { free(A); free(I); return 3; }
    for (int r = 0; r < k; r++) for (int j = 0; j < k; j++) { A[r * k + j] = gen(k, avail[r], j); I[r * k + j] = (unsigned char)(r == j); }
    for (int c = 0; c < k; c++) {
        int p = -1; for (int r = c; r < k; r++) if (A[r * k + c]) { p = r; break; }
        if (p < 0) { free(A); free(I); return 4; }
        if (p != c) for (int j = 0; j < k; j++) { unsigned char t = A[c * k + j]; A[c * k + j] = A[p * k + j]; A[p * k + j] = t; t = I[c * k + j]; I[c * k + j] = I[p * k + j]; I[p * k + j] = t; }
        unsigned char iv = inv(A[c * k + c]);
        for (int j = 0; j < k; j++) { A[c * k + j] = mul(A[c * k + j], iv); I[c * k + j] = mul(I[c * k + j], iv); }
        for (int r = 0; r < k; r++) if (r != c && A[r * k + c]) { unsigned char f = A[r * k + c]; for (int j = 0; j < k; j++) { A[r * k + j] ^= mul(f, A[c * k + j]); I[r * k + j] ^= mul(f, I[c * k + j]); } }
    }
    /* data_j = sum_r I[j][r] * frag[avail[r]] */
    for (int j = 0; j < k; j++) {
        if (!is_missing[j]) { tmpdata[j] = (unsigned char *)bufs[j]; continue; }
        unsigned char *out = tmpdata[j];
        memset(out, 0, blocksize);
        for (int r = 0; r < k; r++) { unsigned char c = I[j * k + r]; if (!c) continue; const unsigned char *s = (const unsigned char *)bufs[avail[r]]; for (size_t b = 0; b < blocksize; b++) out[b] ^= mul(c, s[b]); }
    }
    free(A); free(I);
    return 0;
}

static int rebuild(char **bufs, size_t blocksize, const int *want, int nwant, const int *missing, int nmissing, int k, int m, int tlen)
{
    int n = k + m;
    unsigned char *tmpdata[256]; unsigned char *owned[256]; memset(owned, 0, sizeof owned);
    unsigned char is_missing[256]; memset(is_missing, 0, sizeof is_missing);
    for (int i = 0; i < nmissing; i++) if (missing[i] >= 0 && missing[i] < n) is_missing[missing[i]] = 1;
    for (int j = 0; j < k; j++) { tmpdata[j] = NULL; if (is_missing[j]) { owned[j] = malloc(blocksize ? blocksize : 1); if (!owned[j]) { for (int q = 0; q < j; q++) free(owned[q]); return 3; } tmpdata[j] = owned[j]; } }
    int rc = recover_data(bufs, blocksize, missing, nmissing, k, m, tmpdata);
    if (rc == 0) {
        for (int w = 0; w < nwant; w++) {
            int d = want[w];
            if (d < 0 || d >= n) { rc = 5; break; }
            unsigned char *out = (unsigned char *)bufs[d];
            if (d < k) { if (tmpdata[d] != out) memcpy(out, tmpdata[d], blocksize); }
            else {
                memset(out, 0, blocksize);
                for (int j = 0; j < k; j++) { unsigned char c = gen(k, d, j); const unsigned char *s = tmpdata[j]; for (size_t b = 0; b < blocksize; b++) out[b] ^= mul(c, s[b]); }
            }
            trailer(bufs[d], blocksize, d, tlen);
        }
    }
    for (int j = 0; j < k; j++) free(owned[j]);
    return rc;
}


static int count_missing(const int *missing) { int n = 0; while (missing && missing[n] != -1) n++; return n; }

char *create_precoding_matrix(int k) { if (k < 1) return NULL; char *p = malloc((size_t)k * (size_t)k); if (p) for (int i = 0; i < k * k; i++) p[i] = (char)(i / k == i % k); return p; }
char *create_inverse_precoding_matrix(int k) { return create_precoding_matrix(k); }
char *create_kmux_matrix(int k, int m, int w)
{
    (void)w;
    if (k < 1 || m < 0 || k + m > 255) return NULL;
    char *p = malloc((size_t)(k + m) * (size_t)k);
    if (p) for (int r = 0; r < k + m; r++) for (int j = 0; j < k; j++) p[r * k + j] = (char)gen(k, r, j);
    return p;
}

int matrix_encode(char *pre, char *kmux, char **bufs, int k, int m, int w, int hd, int blocksize, int padding_size)
{
    (void)pre; (void)kmux; (void)w; (void)hd;
    __atomic_fetch_add(&phazr_ref_encode_calls, 1, __ATOMIC_RELAXED);
    if (!bufs || k < 1 || m < 0 || k + m > 255 || blocksize < 0 || padding_size < 0) return -1;
    for (int i = 0; i < k; i++) memmove(bufs[i], bufs[i] + padding_size, (size_t)blocksize);
    for (int p = 0; p < m; p++) {
        unsigned char *out = (unsigned char *)bufs[k + p];
        memset(out, 0, (size_t)blocksize);
        for (int j = 0; j < k; j++) {
            unsigned char c = gen(k, k + p, j);
            const unsigned char *d = (const unsigned char *)bufs[j];
            for (int b = 0; b < blocksize; b++) out[b] ^= mul(c, d[b]);
        }
    }
    for (int i = 0; i < k + m; i++) trailer(bufs[i], (size_t)blocksize, i, padding_size);
    return 0;
}

int matrix_decode(char *inv_, char *kmux, char **bufs, int *missing, int k, int m, int w, int hd, int blocksize, int padding_size)
{
    (void)inv_; (void)kmux; (void)w; (void)hd;
    __atomic_fetch_add(&phazr_ref_decode_calls, 1, __ATOMIC_RELAXED);
    if (!bufs || !missing || k < 1 || m < 0 || k + m > 255 || blocksize < 0 || padding_size < 0) return -1;
    int nm = count_missing(missing);
    if (nm > m) return -2;
    return -rebuild(bufs, (size_t)blocksize, missing, nm, missing, nm, k, m, padding_size);
}

int matrix_reconstruct(char *kmux, char **bufs, int *missing, int destination, int k, int m, int w, int blocksize, int padding_size)
{
    (void)kmux; (void)w;
    __atomic_fetch_add(&phazr_ref_reconst_calls, 1, __ATOMIC_RELAXED);
    if (!bufs || !missing || k < 1 || m < 0 || k + m > 255 || blocksize < 0 || padding_size < 0) return -1;
    int nm = count_missing(missing);
    if (nm > m) return -2;
    return -rebuild(bufs, (size_t)blocksize, &destination, 1, missing, nm, k, m, padding_size);
}
