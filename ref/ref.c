/* Independent reference models (see ref.h). No liberasurecode includes. */
#include "ref.h"
#include <string.h>
#include <stdio.h>
#include <stdlib.h>

/* =================== GF(2^16) / 0x1100b =================== */
uint32_t gf16_mul(uint32_t a, uint32_t b)
{
    uint32_t r = 0;
    a &= 0xffff; b &= 0xffff;
    while (b) {
        if (b & 1) r ^= a;
        b >>= 1;
        a <<= 1;
        if (a & 0x10000) a ^= 0x1100b;
    }
    return r & 0xffff;
}

uint32_t gf16_inv(uint32_t a)
{
    /* a^(2^16-2) by square and multiply */
    uint32_t r = 1, p = a & 0xffff;
    unsigned e = 0xfffe;
    while (e) {
        if (e & 1) r = gf16_mul(r, p);
        p = gf16_mul(p, p);
        e >>= 1;
    }
    return r;
}

static uint32_t lagr(int k, int j, uint32_t x)
{
    uint32_t p = 1;
    for (int i = 0; i < k; i++)
        if (i != j) p = gf16_mul(p, x ^ (uint32_t)i);
    return p;
}

uint32_t rs_coeff(int k, int r, int j)
{
    return gf16_mul(lagr(k, j, (uint32_t)r), gf16_inv(lagr(k, j, (uint32_t)k)));
}

void rs_generator(int k, int m, uint32_t *g)
{
    for (int i = 0; i < k; i++)
        for (int j = 0; j < k; j++) g[i * k + j] = (i == j);
    for (int r = k; r < k + m; r++)
        for (int j = 0; j < k; j++) g[r * k + j] = rs_coeff(k, r, j);
}

void rs_model_parity(int k, int m, const uint8_t *const *data, size_t len, int r, uint8_t *out)
{
    (void)m;
    uint32_t c[64];
    for (int j = 0; j < k; j++) c[j] = rs_coeff(k, r, j);
    size_t words = len / 2;
    for (size_t w = 0; w < words; w++) {
        uint32_t acc = 0;
        for (int j = 0; j < k; j++) {
            uint16_t v;
            memcpy(&v, data[j] + 2 * w, 2);      /* host-order 16-bit word */
            acc ^= gf16_mul(v, c[j]);
        }
        uint16_t o = (uint16_t)acc;
        memcpy(out + 2 * w, &o, 2);
    }
    if (len & 1) out[len - 1] = 0; /* never happens: payload sizes are even for w=16 */
}

int gf16_rank(const uint32_t *mat, int k, const int *rows, int nrows)
{
    uint32_t *a = malloc(sizeof(uint32_t) * (size_t)nrows * (size_t)k);
    for (int i = 0; i < nrows; i++)
        memcpy(a + (size_t)i * k, mat + (size_t)rows[i] * k, sizeof(uint32_t) * (size_t)k);
    int rank = 0;
    for (int col = 0; col < k && rank < nrows; col++) {
        int piv = -1;
        for (int i = rank; i < nrows; i++) if (a[i * k + col]) { piv = i; break; }
        if (piv < 0) continue;
        if (piv != rank)
            for (int j = 0; j < k; j++) { uint32_t t = a[piv*k+j]; a[piv*k+j] = a[rank*k+j]; a[rank*k+j] = t; }
        uint32_t inv = gf16_inv(a[rank * k + col]);
        for (int j = 0; j < k; j++) a[rank * k + j] = gf16_mul(a[rank * k + j], inv);
        for (int i = 0; i < nrows; i++) {
            if (i == rank) continue;
            uint32_t f = a[i * k + col];
            if (!f) continue;
            for (int j = 0; j < k; j++) a[i * k + j] ^= gf16_mul(f, a[rank * k + j]);
        }
        rank++;
    }
    free(a);
    return rank;
}

/* =================== GF(2^8) / 0x11d =================== */
uint8_t gf8_mul(uint8_t a, uint8_t b)
{
    unsigned r = 0, x = a, y = b;
    while (y) {
        if (y & 1) r ^= x;
        y >>= 1;
        x <<= 1;
        if (x & 0x100) x ^= 0x11d;
    }
    return (uint8_t)r;
}

uint8_t gf8_inv(uint8_t a)
{
    uint8_t r = 1, p = a;
    unsigned e = 254;
    while (e) {
        if (e & 1) r = gf8_mul(r, p);
        p = gf8_mul(p, p);
        e >>= 1;
    }
    return r;
}

/* ISA-L's documented gf_gen_rs_matrix: identity, then row i (i>=k) = [g^0, g^1, ...]
 * with g = 2^(i-k) */
void isal_vand_generator(int k, int m, uint8_t *g)
{
    int n = k + m;
    memset(g, 0, (size_t)n * (size_t)k);
    for (int i = 0; i < k; i++) g[i * k + i] = 1;
    uint8_t gen = 1;
    for (int i = k; i < n; i++) {
        uint8_t p = 1;
        for (int j = 0; j < k; j++) { g[i * k + j] = p; p = gf8_mul(p, gen); }
        gen = gf8_mul(gen, 2);
    }
}

/* ISA-L's documented gf_gen_cauchy1_matrix: identity, then a[i][j] = 1/(i xor j) */
void isal_cauchy_generator(int k, int m, uint8_t *g)
{
    int n = k + m;
    memset(g, 0, (size_t)n * (size_t)k);
    for (int i = 0; i < k; i++) g[i * k + i] = 1;
    for (int i = k; i < n; i++)
        for (int j = 0; j < k; j++) g[i * k + j] = gf8_inv((uint8_t)(i ^ j));
}

void gf8_model_parity(const uint8_t *g, int k, const uint8_t *const *data, size_t len, int r, uint8_t *out)
{
    for (size_t b = 0; b < len; b++) {
        uint8_t acc = 0;
        for (int j = 0; j < k; j++) acc ^= gf8_mul(data[j][b], g[r * k + j]);
        out[b] = acc;
    }
}

int gf8_rank(const uint8_t *mat, int k, const int *rows, int nrows)
{
    uint8_t *a = malloc((size_t)nrows * (size_t)k);
    for (int i = 0; i < nrows; i++) memcpy(a + (size_t)i * k, mat + (size_t)rows[i] * k, (size_t)k);
    int rank = 0;
    for (int col = 0; col < k && rank < nrows; col++) {
        int piv = -1;
        for (int i = rank; i < nrows; i++) if (a[i * k + col]) { piv = i; break; }
        if (piv < 0) continue;
        if (piv != rank)
            for (int j = 0; j < k; j++) { uint8_t t = a[piv*k+j]; a[piv*k+j] = a[rank*k+j]; a[rank*k+j] = t; }
        uint8_t inv = gf8_inv(a[rank * k + col]);
        for (int j = 0; j < k; j++) a[rank * k + j] = gf8_mul(a[rank * k + j], inv);
        for (int i = 0; i < nrows; i++) {
            if (i == rank) continue;
            uint8_t f = a[i * k + col];
            if (!f) continue;
            for (int j = 0; j < k; j++) a[i * k + j] ^= gf8_mul(f, a[rank * k + j]);
        }
        rank++;
    }
    free(a);
    return rank;
}

/* =================== flat XOR =================== */
#include "xor_golden.h"

const xor_table_t *xor_find(int k, int m, int hd)
{
    for (int i = 0; i < xor_ntables; i++)
        if (xor_tables[i].k == k && xor_tables[i].m == m && xor_tables[i].hd == hd) return &xor_tables[i];
    return NULL;
}

void xor_rows(const xor_table_t *t, uint32_t *rows)
{
    for (int i = 0; i < t->k; i++) rows[i] = 1u << i;
    for (int j = 0; j < t->m; j++) rows[t->k + j] = t->parity_bms[j];
}

int gf2_rank(const uint32_t *rows, const int *sel, int nsel)
{
    uint32_t basis[32];
    int nb = 0;
    for (int i = 0; i < nsel; i++) {
        uint32_t v = rows[sel[i]];
        for (int b = 0; b < nb; b++) {
            uint32_t hb = basis[b] & (~basis[b] + 1); /* lowest set bit as pivot */
            if (v & hb) v ^= basis[b];
        }
        if (v) {
            /* reduce existing basis by the new pivot to keep pivots unique */
            uint32_t hv = v & (~v + 1);
            for (int b = 0; b < nb; b++) if (basis[b] & hv) basis[b] ^= v;
            basis[nb++] = v;
        }
    }
    return nb;
}

int gf2_in_span(const uint32_t *rows, const int *sel, int nsel, uint32_t target)
{
    uint32_t basis[32];
    int nb = 0;
    for (int i = 0; i < nsel; i++) {
        uint32_t v = rows[sel[i]];
        for (int b = 0; b < nb; b++) {
            uint32_t hb = basis[b] & (~basis[b] + 1);
            if (v & hb) v ^= basis[b];
        }
        if (v) {
            uint32_t hv = v & (~v + 1);
            for (int b = 0; b < nb; b++) if (basis[b] & hv) basis[b] ^= v;
            basis[nb++] = v;
        }
    }
    uint32_t v = target;
    for (int b = 0; b < nb; b++) {
        uint32_t hb = basis[b] & (~basis[b] + 1);
        if (v & hb) v ^= basis[b];
    }
    return v == 0;
}

int xor_golden_selfcheck(char *err, size_t errlen)
{
    for (int t = 0; t < xor_ntables; t++) {
        const xor_table_t *x = &xor_tables[t];
        int k = x->k, m = x->m, n = k + m;
        /* transposes */
        for (int i = 0; i < k; i++)
            for (int j = 0; j < m; j++) {
                int a = (x->parity_bms[j] >> i) & 1, b = (x->data_bms[i] >> j) & 1;
                if (a != b) { snprintf(err, errlen, "golden (%d,%d,%d): transpose mismatch d%d p%d", k, m, x->hd, i, j); return -1; }
            }
        for (int j = 0; j < m; j++)
            if (x->parity_bms[j] >> k) { snprintf(err, errlen, "golden (%d,%d,%d): parity bm out of range", k, m, x->hd); return -1; }
        /* distance: every erasure set of size < hd leaves rank k */
        uint32_t rows[64];
        xor_rows(x, rows);
        int e[4];
        for (int sz = 1; sz < x->hd; sz++) {
            for (int i = 0; i < sz; i++) e[i] = i;
            for (;;) {
                int sel[64], ns = 0;
                for (int r = 0; r < n; r++) {
                    int gone = 0;
                    for (int i = 0; i < sz; i++) if (e[i] == r) gone = 1;
                    if (!gone) sel[ns++] = r;
                }
                if (gf2_rank(rows, sel, ns) != k) {
                    snprintf(err, errlen, "golden (%d,%d,%d): erasure set of size %d not recoverable", k, m, x->hd, sz);
                    return -1;
                }
                int p = sz - 1;
                while (p >= 0 && e[p] == n - sz + p) p--;
                if (p < 0) break;
                e[p]++;
                for (int q = p + 1; q < sz; q++) e[q] = e[q - 1] + 1;
            }
        }
    }
    return 0;
}

void xor_model_parity(const xor_table_t *t, const uint8_t *const *data, size_t len, int j, uint8_t *out)
{
    memset(out, 0, len);
    for (int i = 0; i < t->k; i++)
        if ((t->parity_bms[j] >> i) & 1)
            for (size_t b = 0; b < len; b++) out[b] ^= data[i][b];
}

/* =================== CRC-32 =================== */
uint32_t crc_std(const uint8_t *p, size_t n)
{
    uint32_t c = 0xffffffffu;
    while (n--) {
        c ^= *p++;
        for (int i = 0; i < 8; i++) c = (c >> 1) ^ ((c & 1) ? 0xEDB88320u : 0);
    }
    return c ^ 0xffffffffu;
}

/* historical variant: identical except that the running remainder is shifted
 * right *arithmetically* (sign-extending) by 8 per byte */
uint32_t crc_legacy(const uint8_t *p, size_t n)
{
    uint32_t c = 0xffffffffu;
    while (n--) {
        uint32_t t = (c ^ *p++) & 0xff;
        for (int i = 0; i < 8; i++) t = (t >> 1) ^ ((t & 1) ? 0xEDB88320u : 0);
        uint32_t sh = c >> 8;
        if (c & 0x80000000u) sh |= 0xff000000u;
        c = t ^ sh;
    }
    return c ^ 0xffffffffu;
}

/* =================== sizes =================== */
/* ISA-L adapters: the padding unit follows the word size the instance was created with (8, 16 or 32 bits; 0 =
 * default 8) although the arithmetic is always GF(2^8).  Set by the harness whenever it creates an instance. */
/* =================== GF(2^w) for the libJerasure stand-in =================== */
int gfw_ok(int w) { return w == 4 || w == 8 || w == 16 || w == 32; }
static uint64_t gfw_poly(int w) { return w == 4 ? 0x13 : w == 8 ? 0x11d : w == 16 ? 0x1100b : 0x100400007ull; }
uint32_t gfw_mul(uint32_t a, uint32_t b, int w)
{
    uint64_t r = 0, aa = a, top = 1ull << w, poly = gfw_poly(w);
    while (b) { if (b & 1) r ^= aa; b >>= 1; aa <<= 1; if (aa & top) aa ^= poly; }
    return (uint32_t)r;
}
uint32_t gfw_inv(uint32_t a, int w)
{
    /* a^(2^w - 2) by square and multiply */
    uint32_t r = 1, s = a;
    for (int i = 1; i < w; i++) { s = gfw_mul(s, s, w); r = gfw_mul(r, s, w); }
    return r;
}
uint32_t jer_coeff(int cauchy, int k, int m, int w, int i, int j)
{
    return gfw_inv(cauchy ? (uint32_t)(i ^ (m + j)) : (uint32_t)((k + i) ^ j), w);
}
void jer_vand_model_parity(int k, int m, int w, const uint8_t *const *data, size_t len, int r, uint8_t *out)
{
    int wb = w / 8;
    for (size_t x = 0; x + (size_t)wb <= len; x += (size_t)wb) {
        uint32_t acc = 0;
        for (int j = 0; j < k; j++) {
            uint32_t v = 0;
            for (int b = 0; b < wb; b++) v |= (uint32_t)data[j][x + (size_t)b] << (8 * b);
            acc ^= gfw_mul(jer_coeff(0, k, m, w, r - k, j), v, w);
        }
        for (int b = 0; b < wb; b++) out[x + (size_t)b] = (uint8_t)(acc >> (8 * b));
    }
}
void jer_cauchy_model_parity(int k, int m, int w, int packet, const uint8_t *const *data, size_t len, int r, uint8_t *out)
{
    size_t stretch = (size_t)w * (size_t)packet;
    for (size_t x = 0; x < len; x++) out[x] = 0;
    for (int j = 0; j < k; j++) {
        uint32_t e = jer_coeff(1, k, m, w, r - k, j);
        for (int b = 0; b < w; b++) {
            uint32_t col = gfw_mul(e, 1u << b, w);                   /* e * 2^b */
            for (int a = 0; a < w; a++) if (col >> a & 1)
                for (size_t off = 0; off + stretch <= len; off += stretch)
                    for (int y = 0; y < packet; y++) out[off + (size_t)a * (size_t)packet + (size_t)y] ^= data[j][off + (size_t)b * (size_t)packet + (size_t)y];
        }
    }
}

int ref_isal_word_bits = 0;
int ref_word_bytes(int backend)
{
    { int wb = __atomic_load_n(&ref_isal_word_bits, __ATOMIC_RELAXED); if ((backend == REF_BE_ISAL_VAND || backend == REF_BE_ISAL_CAUCHY) && wb >= 8) return wb / 8; }
    /* libJerasure adapters: the explicit word size, default 16 (Vandermonde) / 4 (Cauchy); the Cauchy adapter pads every
     * fragment to whole stretches of w packets of sizeof(long)*128 bytes */
    { int wb = __atomic_load_n(&ref_isal_word_bits, __ATOMIC_RELAXED);
      if (backend == REF_BE_JER_VAND) return (wb > 0 ? wb : 16) / 8;
      if (backend == REF_BE_JER_CAUCHY) return (wb > 0 ? wb : 4) * 1024;
      if (backend == REF_BE_PHAZR) return (wb > 0 ? wb : 64) / 8; }
    switch (backend) {
    case REF_BE_RSVAND: return 2;
    case REF_BE_XOR: return 4;
    case REF_BE_NULL: return 4;
    case REF_BE_ISAL_VAND: case REF_BE_ISAL_CAUCHY: return 1;
    case REF_BE_SHSS: return 16;            /* w = 128 bits */
    }
    return 0;
}

int ref_phazr_hd = 0;
uint64_t ref_backend_metadata_bytes(int backend, uint64_t payload)
{
    if (backend == REF_BE_SHSS) return 32;
    if (backend == REF_BE_PHAZR) {
        int wb = __atomic_load_n(&ref_isal_word_bits, __ATOMIC_RELAXED), hd = __atomic_load_n(&ref_phazr_hd, __ATOMIC_RELAXED);
        uint64_t ws = (uint64_t)((wb > 0 ? wb : 64) / 8), den = ws - (uint64_t)(hd > 0 ? hd : 1);
        return ((payload + den - 1) / den) * ws - payload;
    }
    return 0;
}

uint64_t ref_aligned_size(int backend, int k, uint64_t len)
{
    uint64_t a = (uint64_t)k * (uint64_t)ref_word_bytes(backend);
    return ((len + a - 1) / a) * a;
}

uint64_t ref_payload_size(int backend, int k, uint64_t len)
{
    return ref_aligned_size(backend, k, len) / (uint64_t)k;
}

/* =================== header =================== */
void ref_put32(uint8_t *p, uint32_t v) { p[0] = v; p[1] = v >> 8; p[2] = v >> 16; p[3] = v >> 24; }
void ref_put64(uint8_t *p, uint64_t v) { ref_put32(p, (uint32_t)v); ref_put32(p + 4, (uint32_t)(v >> 32)); }
uint32_t ref_get32(const uint8_t *p) { return p[0] | (uint32_t)p[1] << 8 | (uint32_t)p[2] << 16 | (uint32_t)p[3] << 24; }
uint64_t ref_get64(const uint8_t *p) { return (uint64_t)ref_get32(p) | (uint64_t)ref_get32(p + 4) << 32; }
uint32_t ref_bswap32(uint32_t v) { return v >> 24 | (v >> 8 & 0xff00) | (v << 8 & 0xff0000) | v << 24; }
uint64_t ref_bswap64(uint64_t v) { return (uint64_t)ref_bswap32((uint32_t)v) << 32 | ref_bswap32((uint32_t)(v >> 32)); }

void ref_hdr_write(uint8_t out[REF_HDR_LEN], const ref_hdr_t *h, int legacy)
{
    memset(out, 0, REF_HDR_LEN);
    ref_put32(out + REF_OFF_IDX, h->idx);
    ref_put32(out + REF_OFF_SIZE, h->size);
    ref_put32(out + REF_OFF_BMS, h->bms);
    ref_put64(out + REF_OFF_ORIG, h->orig);
    out[REF_OFF_CT] = h->ct;
    for (int i = 0; i < 8; i++) ref_put32(out + REF_OFF_CHKSUM + 4 * i, h->chksum[i]);
    out[REF_OFF_MISMATCH] = h->mismatch;
    out[REF_OFF_BEID] = h->beid;
    ref_put32(out + REF_OFF_BEVER, h->bever);
    ref_put32(out + REF_OFF_MAGIC, h->magic);
    ref_put32(out + REF_OFF_LIBVER, h->libver);
    uint32_t c = legacy ? crc_legacy(out, REF_META_LEN) : crc_std(out, REF_META_LEN);
    ref_put32(out + REF_OFF_MCRC, c);
}

void ref_hdr_read(const uint8_t in[REF_HDR_LEN], ref_hdr_t *h)
{
    h->idx = ref_get32(in + REF_OFF_IDX);
    h->size = ref_get32(in + REF_OFF_SIZE);
    h->bms = ref_get32(in + REF_OFF_BMS);
    h->orig = ref_get64(in + REF_OFF_ORIG);
    h->ct = in[REF_OFF_CT];
    for (int i = 0; i < 8; i++) h->chksum[i] = ref_get32(in + REF_OFF_CHKSUM + 4 * i);
    h->mismatch = in[REF_OFF_MISMATCH];
    h->beid = in[REF_OFF_BEID];
    h->bever = ref_get32(in + REF_OFF_BEVER);
    h->magic = ref_get32(in + REF_OFF_MAGIC);
    h->libver = ref_get32(in + REF_OFF_LIBVER);
    h->mcrc = ref_get32(in + REF_OFF_MCRC);
}

int ref_hdr_host_order(const uint8_t h[REF_HDR_LEN])
{
    return ref_get32(h + REF_OFF_MAGIC) == REF_MAGIC;
}

void ref_hdr_reseal(uint8_t h[REF_HDR_LEN], int legacy)
{
    uint32_t c = legacy ? crc_legacy(h, REF_META_LEN) : crc_std(h, REF_META_LEN);
    if (ref_get32(h + REF_OFF_MAGIC) == ref_bswap32(REF_MAGIC)) c = ref_bswap32(c);
    ref_put32(h + REF_OFF_MCRC, c);
}

int ref_hdr_accept(const uint8_t h[REF_HDR_LEN])
{
    uint32_t magic = ref_get32(h + REF_OFF_MAGIC);
    uint32_t ver = ref_get32(h + REF_OFF_LIBVER);
    uint32_t stored = ref_get32(h + REF_OFF_MCRC);
    if (ver == 0) return 0;
    if (magic != REF_MAGIC) {
        if (ref_bswap32(magic) != REF_MAGIC) return 0;
        ver = ref_bswap32(ver);
        stored = ref_bswap32(stored);
    }
    if (ver < REF_VER_1_2_0) return 1;
    if (stored == crc_std(h, REF_META_LEN)) return 1;
    if (stored == crc_legacy(h, REF_META_LEN)) return 1;
    return 0;
}

void ref_hdr_twin(const uint8_t in[REF_HDR_LEN], uint8_t out[REF_HDR_LEN], int legacy)
{
    /* (offset,width) of every multi-byte field before the metadata CRC; single
     * bytes and padding are copied.  The other host computes its metadata CRC
     * over *its* serialisation, so the CRC is recomputed, not byte-swapped. */
    static const struct { int off, w; } f[] = {
        {0, 4}, {4, 4}, {8, 4}, {12, 8},
        {21, 4}, {25, 4}, {29, 4}, {33, 4}, {37, 4}, {41, 4}, {45, 4}, {49, 4},
        {55, 4}, {59, 4}, {63, 4}
    };
    memcpy(out, in, REF_HDR_LEN);
    for (size_t i = 0; i < sizeof f / sizeof f[0]; i++)
        for (int b = 0; b < f[i].w; b++) out[f[i].off + b] = in[f[i].off + f[i].w - 1 - b];
    uint32_t c = legacy ? crc_legacy(out, REF_META_LEN) : crc_std(out, REF_META_LEN);
    /* stored in the writer's (opposite) byte order */
    out[REF_OFF_MCRC] = c >> 24; out[REF_OFF_MCRC + 1] = c >> 16;
    out[REF_OFF_MCRC + 2] = c >> 8; out[REF_OFF_MCRC + 3] = c;
}
