/* Independent reference models for the liberasurecode monitors.
 * Nothing in here includes a liberasurecode header or calls into the library:
 * everything is written from the property texts (C01-C20). */
#ifndef VERIF_REF_H
#define VERIF_REF_H
#include <stdint.h>
#include <stddef.h>

/* ---- wire-format constants (C07) ---- */
#define REF_HDR_LEN 80
#define REF_META_LEN 59
#define REF_OFF_IDX 0
#define REF_OFF_SIZE 4
#define REF_OFF_BMS 8
#define REF_OFF_ORIG 12
#define REF_OFF_CT 20
#define REF_OFF_CHKSUM 21
#define REF_OFF_MISMATCH 53
#define REF_OFF_BEID 54
#define REF_OFF_BEVER 55
#define REF_OFF_MAGIC 59
#define REF_OFF_LIBVER 63
#define REF_OFF_MCRC 67
#define REF_OFF_PAD 71
#define REF_MAGIC 0x0b0c5eccu
#define REF_VER_1_2_0 0x010200u

/* backend ids (wire values) */
#define REF_BE_NULL 0
#define REF_BE_JER_VAND 1
#define REF_BE_JER_CAUCHY 2
#define REF_BE_XOR 3
#define REF_BE_ISAL_VAND 4
#define REF_BE_SHSS 5
#define REF_BE_RSVAND 6
#define REF_BE_ISAL_CAUCHY 7
#define REF_BE_PHAZR 8
#define REF_CT_NONE 1
#define REF_CT_CRC32 2

/* ---- GF(2^16), polynomial 0x1100b, shift-and-xor (no tables) ---- */
uint32_t gf16_mul(uint32_t a, uint32_t b);
uint32_t gf16_inv(uint32_t a);
/* closed-form generator coefficient for fragment row r (k<=r<k+m), data column j */
uint32_t rs_coeff(int k, int r, int j);
/* full (k+m) x k generator: identity on top, closed form below */
void rs_generator(int k, int m, uint32_t *g /* (k+m)*k */);
/* model parity over host-order 16-bit words (+ trailing byte rule never needed: sizes even) */
void rs_model_parity(int k, int m, const uint8_t *const *data, size_t len, int r, uint8_t *out);
/* rank of `rows` selected rows (by index) of a (n x k) matrix over GF(2^16) */
int gf16_rank(const uint32_t *mat, int k, const int *rows, int nrows);

/* ---- GF(2^8), polynomial 0x11d (ISA-L field) ---- */
uint8_t gf8_mul(uint8_t a, uint8_t b);
uint8_t gf8_inv(uint8_t a);
void isal_vand_generator(int k, int m, uint8_t *g /* (k+m)*k */);
void isal_cauchy_generator(int k, int m, uint8_t *g);
void gf8_model_parity(const uint8_t *g, int k, const uint8_t *const *data, size_t len, int r, uint8_t *out);
int gf8_rank(const uint8_t *mat, int k, const int *rows, int nrows);

/* ---- GF(2^w), w in {4,8,16,32}: shift-and-xor with the polynomials 0x13, 0x11d, 0x1100b, 0x100400007 (the fields the
 *      stand-in libJerasure documents); 0 for other w ---- */
int gfw_ok(int w);
uint32_t gfw_mul(uint32_t a, uint32_t b, int w);
uint32_t gfw_inv(uint32_t a, int w);
/* documented coding matrices of the stand-in: vand 1/((k+i)^j), cauchy 1/(i^(m+j)); i = parity row 0..m-1 */
uint32_t jer_coeff(int cauchy, int k, int m, int w, int i, int j);
/* parity r (k<=r<k+m) of the word code (little-endian w-bit words, w in {8,16,32}) */
void jer_vand_model_parity(int k, int m, int w, const uint8_t *const *data, size_t len, int r, uint8_t *out);
/* parity r of the bit-matrix code: every fragment is a sequence of stretches of w packets of `packet` bytes; parity packet a
 * of a stretch = xor over (j, b) with bit a of (coeff(i,j) * 2^b) set of data packet b of fragment j */
void jer_cauchy_model_parity(int k, int m, int w, int packet, const uint8_t *const *data, size_t len, int r, uint8_t *out);

/* ---- flat XOR: golden equations ---- */
typedef struct { int k, m, hd; const uint32_t *parity_bms; const uint32_t *data_bms; } xor_table_t;
extern const xor_table_t xor_tables[];
extern const int xor_ntables;
const xor_table_t *xor_find(int k, int m, int hd);
/* GF(2) generator rows as bitmasks over k data columns: row i<k = 1<<i, row k+j = parity_bms[j] */
void xor_rows(const xor_table_t *t, uint32_t *rows /* k+m */);
/* rank over GF(2) of the selected rows */
int gf2_rank(const uint32_t *rows, const int *sel, int nsel);
/* is row `target` in the span of the selected rows? */
int gf2_in_span(const uint32_t *rows, const int *sel, int nsel, uint32_t target);
/* self-check of the golden copy: transposes agree, min distance >= hd. returns 0 if ok */
int xor_golden_selfcheck(char *err, size_t errlen);
void xor_model_parity(const xor_table_t *t, const uint8_t *const *data, size_t len, int j, uint8_t *out);

/* ---- CRC-32 (0xEDB88320), bit by bit ---- */
uint32_t crc_std(const uint8_t *p, size_t n);
uint32_t crc_legacy(const uint8_t *p, size_t n);   /* historical sign-extending variant */

/* ---- sizes ---- */
/* word size in bytes for the alignment unit: rs_vand 2, xor 4, null 4, isa-l 1 */
extern int ref_isal_word_bits;
int ref_word_bytes(int backend);
extern int ref_phazr_hd;                         /* the hd argument of the libphazr configuration being modelled (<= 0: 1) */
uint64_t ref_backend_metadata_bytes(int backend, uint64_t payload);   /* per-fragment tail owned by the backend: shss 32; libphazr ceil(P/(w/8-hd))*(w/8)-P; 0 otherwise */
uint64_t ref_aligned_size(int backend, int k, uint64_t len);
uint64_t ref_payload_size(int backend, int k, uint64_t len);

/* ---- header serializer / predicate ---- */
typedef struct {
    uint32_t idx, size, bms;
    uint64_t orig;
    uint8_t ct;
    uint32_t chksum[8];
    uint8_t mismatch, beid;
    uint32_t bever, magic, libver, mcrc;
} ref_hdr_t;
void ref_put32(uint8_t *p, uint32_t v);
void ref_put64(uint8_t *p, uint64_t v);
uint32_t ref_get32(const uint8_t *p);
uint64_t ref_get64(const uint8_t *p);
uint32_t ref_bswap32(uint32_t v);
uint64_t ref_bswap64(uint64_t v);
/* serialize little-endian, computing metadata CRC (legacy if legacy!=0) */
void ref_hdr_write(uint8_t out[REF_HDR_LEN], const ref_hdr_t *h, int legacy);
void ref_hdr_read(const uint8_t in[REF_HDR_LEN], ref_hdr_t *h);   /* raw LE read, no swapping */
/* re-seal: recompute metadata crc at offset 67 in the byte order implied by magic */
void ref_hdr_reseal(uint8_t h[REF_HDR_LEN], int legacy);
/* C09 predicate over raw bytes: 1 = accepted by the metadata query */
int ref_hdr_accept(const uint8_t h[REF_HDR_LEN]);
/* 1 if magic is in host (LE) order */
int ref_hdr_host_order(const uint8_t h[REF_HDR_LEN]);
/* field-swapped twin (what an opposite-endian host would have written) */
void ref_hdr_twin(const uint8_t in[REF_HDR_LEN], uint8_t out[REF_HDR_LEN], int legacy);

#endif
