/* Self-test of the reference models against frozen KATs (kat/kat_vectors.h,
 * produced by an independent Python implementation), against the two
 * in-the-wild golden headers quoted in the repository's own test, and against
 * zlib's crc32.  Exit 0 = all models trustworthy. */
#include "ref.h"
#include "../kat/kat_vectors.h"
#include <stdio.h>
#include <string.h>
#include <stdlib.h>
#include <zlib.h>

static int fails;
#define CHECK(c, ...) do { if (!(c)) { fails++; fprintf(stderr, "SELFTEST FAIL: " __VA_ARGS__); fprintf(stderr, "\n"); } } while (0)

static const uint8_t golden_le[80] =
    "\x03\x00\x00\x00\x00\x00\x04\x00\x00\x00\x00\x00\x00\x00\x10\x00"
    "\x00\x00\x00\x00\x01\x00\x00\x00\x00\x00\x00\x00\x00\x00\x00\x00"
    "\x00\x00\x00\x00\x00\x00\x00\x00\x00\x00\x00\x00\x00\x00\x00\x00"
    "\x00\x00\x00\x00\x00\x00\x07\x01\x0e\x02\x00\xcc\x5e\x0c\x0b\x00"
    "\x04\x01\x00\x22\xee\x45\xb9\x00\x00\x00\x00\x00\x00\x00\x00";
static const uint8_t golden_be[80] =
    "\x00\x00\x00\x03\x00\x04\x00\x00\x00\x00\x00\x00\x00\x00\x00\x00"
    "\x00\x10\x00\x00\x01\x00\x00\x00\x00\x00\x00\x00\x00\x00\x00\x00"
    "\x00\x00\x00\x00\x00\x00\x00\x00\x00\x00\x00\x00\x00\x00\x00\x00"
    "\x00\x00\x00\x00\x00\x00\x07\x00\x02\x0e\x01\x0b\x0c\x5e\xcc\x00"
    "\x01\x04\x00\xfa\x85\x40\x70\x00\x00\x00\x00\x00\x00\x00\x00";

int main(void)
{
    char err[256];
    /* GF(2^16) */
    CHECK(gf16_mul(2, 0x8000) == 0x100b, "gf16 reduce");
    for (uint32_t a = 1; a < 65536; a += 97) CHECK(gf16_mul(a, gf16_inv(a)) == 1, "gf16 inv %u", a);
    { uint32_t x = 1; int ord = 0; do { x = gf16_mul(x, 2); ord++; } while (x != 1 && ord < 70000);
      CHECK(ord == 65535, "0x1100b: 2 is not primitive (order %d)", ord); }
    /* RS generator + parity KATs */
    int nshapes = (int)(sizeof kat_rs_shapes / sizeof kat_rs_shapes[0]);
    for (int s = 0; s < nshapes; s++) {
        int k = kat_rs_shapes[s].k, m = kat_rs_shapes[s].m;
        uint32_t *g = malloc(sizeof(uint32_t) * (size_t)(k + m) * (size_t)k);
        rs_generator(k, m, g);
        for (int r = 0; r < m; r++)
            for (int j = 0; j < k; j++)
                CHECK(g[(k + r) * k + j] == kat_rs_gen[s][r * k + j], "rs gen (%d,%d) r=%d j=%d", k, m, r, j);
        for (int j = 0; j < k; j++) CHECK(g[k * k + j] == 1, "first parity row not ones");
        const uint8_t *data[32]; uint16_t buf[32][KAT_RS_WORDS];
        for (int j = 0; j < k; j++) { memcpy(buf[j], kat_rs_data[s] + j * KAT_RS_WORDS, 2 * KAT_RS_WORDS); data[j] = (uint8_t *)buf[j]; }
        for (int r = 0; r < m; r++) {
            uint16_t out[KAT_RS_WORDS];
            rs_model_parity(k, m, data, 2 * KAT_RS_WORDS, k + r, (uint8_t *)out);
            CHECK(memcmp(out, kat_rs_par[s] + r * KAT_RS_WORDS, 2 * KAT_RS_WORDS) == 0, "rs parity (%d,%d) r=%d", k, m, r);
        }
        int rows[32]; for (int i = 0; i < k; i++) rows[i] = m + i >= k + m ? i : m + i - (m > k ? 0 : 0);
        /* last k rows are independent (MDS) */
        for (int i = 0; i < k; i++) rows[i] = (k + m) - 1 - i;
        CHECK(gf16_rank(g, k, rows, k) == k, "rs last-k rows singular (%d,%d)", k, m);
        free(g);
    }
    /* CRC */
    for (int i = 0; i < KAT_NCRC; i++) {
        CHECK(crc_std(kat_crc_buf[i], kat_crc_len[i]) == kat_crc_std[i], "crc_std kat %d", i);
        CHECK(crc_legacy(kat_crc_buf[i], kat_crc_len[i]) == kat_crc_legacy[i], "crc_legacy kat %d", i);
        CHECK(crc_std(kat_crc_buf[i], kat_crc_len[i]) == crc32(0, kat_crc_buf[i], kat_crc_len[i]), "crc_std zlib %d", i);
    }
    CHECK(crc_std((const uint8_t *)"123456789", 9) == 0xCBF43926u, "crc check value");
    { uint8_t b[4096]; unsigned s = 12345;
      for (int t = 0; t < 200; t++) { size_t n = (s = s * 1103515245u + 12345u) % 4096; for (size_t i = 0; i < n; i++) b[i] = (s = s * 1103515245u + 12345u) >> 16;
        CHECK(crc_std(b, n) == crc32(0, b, n), "crc_std vs zlib random"); } }
    CHECK(crc_legacy(golden_le, 59) == 0xb945ee22u, "legacy crc of golden LE header");
    CHECK(crc_std(golden_le, 59) == 0x1873f8ecu, "zlib crc of golden LE header");
    CHECK(crc_legacy(golden_be, 59) == 0xfa854070u, "legacy crc of golden BE header");
    CHECK(crc_std(golden_be, 59) == 0xe37388a0u, "zlib crc of golden BE header");
    /* header serializer vs python struct.pack */
    for (int i = 0; i < KAT_NHDR; i++) {
        ref_hdr_t h; uint8_t out[80];
        ref_hdr_read(kat_hdr[i], &h);
        int legacy = (h.mcrc == crc_legacy(kat_hdr[i], 59)) && (h.mcrc != crc_std(kat_hdr[i], 59));
        ref_hdr_write(out, &h, legacy);
        CHECK(memcmp(out, kat_hdr[i], 80) == 0, "header kat %d", i);
        CHECK(ref_hdr_accept(kat_hdr[i]) == 1, "header kat %d rejected", i);
    }
    CHECK(memcmp(kat_hdr[0], golden_le, 80) == 0, "python header != golden LE");
    /* twin builder: LE golden <-> BE golden */
    { uint8_t t[80]; ref_hdr_twin(golden_le, t, 1); CHECK(memcmp(t, golden_be, 80) == 0, "twin(LE) != BE golden");
      ref_hdr_twin(golden_be, t, 1); 
      /* twin of BE stores crc big-endian of *its* output; compare all but crc, then crc value */
      CHECK(memcmp(t, golden_le, 67) == 0, "twin(BE) != LE golden (fields)");
      CHECK(ref_hdr_accept(golden_le) && ref_hdr_accept(golden_be), "golden headers rejected");
      uint8_t bad[80]; memcpy(bad, golden_le, 80); bad[70] = 0xff; CHECK(!ref_hdr_accept(bad), "bad crc accepted");
      memcpy(bad, golden_be, 80); bad[70] = 0xff; CHECK(!ref_hdr_accept(bad), "bad BE crc accepted"); }
    /* XOR golden tables */
    CHECK(xor_ntables == 38, "38 tables");
    CHECK(xor_golden_selfcheck(err, sizeof err) == 0, "%s", err);
    /* GF(2^8) */
    CHECK(gf8_mul(2, 0x80) == 0x1d, "gf8 reduce");
    for (int a = 1; a < 256; a++) CHECK(gf8_mul((uint8_t)a, gf8_inv((uint8_t)a)) == 1, "gf8 inv %d", a);
    { uint8_t g[32 * 32]; isal_cauchy_generator(10, 4, g); int rows[10]; for (int i = 0; i < 10; i++) rows[i] = 4 + i;
      CHECK(gf8_rank(g, 10, rows, 10) == 10, "cauchy rank"); }
    /* sizes */
    CHECK(ref_aligned_size(REF_BE_RSVAND, 10, 1) == 20 && ref_aligned_size(REF_BE_XOR, 3, 13) == 24 && ref_aligned_size(REF_BE_ISAL_VAND, 7, 0) == 0, "sizes");
    if (fails) { fprintf(stderr, "ref selftest: %d failure(s)\n", fails); return 1; }
    printf("ref selftest ok\n");
    return 0;
}
