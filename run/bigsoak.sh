#!/bin/bash
# quick tier of every check under many seeds; prints one line per non-zero exit
for s in "$@"; do
 for i in 01 02 03 04 05 06 07 08 09 10 11 12 13 14 15 16 17 18 19 20; do
  VERIF_SEED=$s python3 run/check.py C$i --tier quick > soak_C${i}_$s.log 2>&1; rc=$?
  if [ $rc -ne 0 ]; then echo "ALARM C$i seed=$s rc=$rc $(grep -m1 'key:' soak_C${i}_$s.log)"; fi
 done
 echo "seed $s done"
done
