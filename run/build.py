#!/usr/bin/env python3
"""Build liberasurecode from /repo's *current working tree* in a given flavour.

The repository is configured in-tree with autotools and `make` ignores flag
changes, so the tracked sources are compiled directly, reproducing the link
layout of src/Makefile.am (four shared objects with the repository's sonames,
rs_galois.c in both RS objects).  Output goes to <outdir>/<flavour>/lib.
"""
import os, re, subprocess, sys, shutil
from concurrent.futures import ThreadPoolExecutor

REPO = os.environ.get("VERIF_REPO", "/repo")
VERIF = os.path.dirname(os.path.dirname(os.path.abspath(__file__)))
GUARD = "LIBERASURECODE_VERIF"

SIMD = ["-mmmx", "-DINTEL_MMX", "-msse", "-DINTEL_SSE", "-msse2", "-DINTEL_SSE2",
        "-msse3", "-DINTEL_SSE3", "-mssse3", "-DINTEL_SSSE3", "-msse4.1",
        "-DINTEL_SSE41", "-msse4.2", "-DINTEL_SSE42", "-mavx", "-DINTEL_AVX"]
SAN_AU = ["-fsanitize=address,undefined", "-fno-sanitize-recover=all",
          "-fno-sanitize=shift-base", "-fno-omit-frame-pointer",
          # uninitialised locals read deterministic garbage (0xFE..) instead of whatever the stack held: together with
          # ASan's malloc_fill_byte this lets the byte-exact oracles see a lost initialisation (MSan is unusable here)
          "-ftrivial-auto-var-init=pattern"]

FLAVOURS = {
    # name: (cc, cflags, ldflags)
    "asan":       ("gcc", ["-O1", "-g"] + SAN_AU + SIMD, ["-fsanitize=address,undefined"]),
    "asan-nosse": ("gcc", ["-O1", "-g"] + SAN_AU, ["-fsanitize=address,undefined"]),
    "tsan":       ("gcc", ["-O1", "-g", "-fsanitize=thread", "-fno-omit-frame-pointer"] + SIMD,
                   ["-fsanitize=thread"]),
    "plain":      ("gcc", ["-O2", "-g"] + SIMD, []),
    "clang":      ("clang-14", ["-O2", "-g"] + SIMD, []),
    "cov":        ("gcc", ["-O0", "-g", "--coverage"] + SIMD, ["--coverage"]),
}

FALLBACK_MAIN = """erasurecode.c erasurecode_helpers.c erasurecode_preprocessing.c
 erasurecode_postprocessing.c utils/chksum/crc32.c utils/chksum/alg_sig.c
 backends/null/null.c backends/xor/flat_xor_hd.c backends/jerasure/jerasure_rs_vand.c
 backends/jerasure/jerasure_rs_cauchy.c backends/isa-l/isa_l_common.c
 backends/isa-l/isa_l_rs_vand.c backends/isa-l/isa_l_rs_cauchy.c
 backends/rs_vand/liberasurecode_rs_vand.c builtin/rs_vand/rs_galois.c
 backends/shss/shss.c backends/phazrio/libphazr.c""".split()


def am_sources(path, var, fallback):
    """Parse `<var> = a.c \\ b.c ...` out of a Makefile.am; fall back to a fixed list."""
    try:
        txt = open(path).read().replace("\\\n", " ")
        m = re.search(r"^%s\s*=\s*(.*)$" % re.escape(var), txt, re.M)
        if m:
            srcs = [s for s in m.group(1).split() if s.endswith(".c")]
            if srcs:
                return srcs
    except OSError:
        pass
    return fallback


def layout():
    src = os.path.join(REPO, "src")
    main = am_sources(os.path.join(src, "Makefile.am"), "liberasurecode_la_SOURCES", FALLBACK_MAIN)
    xor = am_sources(os.path.join(src, "builtin/xor_codes/Makefile.am"), "libXorcode_la_SOURCES",
                     ["xor_code.c", "xor_hd_code.c"])
    nul = am_sources(os.path.join(src, "builtin/null_code/Makefile.am"), "libnullcode_la_SOURCES",
                     ["null_code.c"])
    rsv = am_sources(os.path.join(src, "builtin/rs_vand/Makefile.am"),
                     "liberasurecode_rs_vand_la_SOURCES", ["rs_galois.c", "liberasurecode_rs_vand.c"])
    return [
        ("libXorcode.so.1", [os.path.join(src, "builtin/xor_codes", s) for s in xor], []),
        ("libnullcode.so.1", [os.path.join(src, "builtin/null_code", s) for s in nul], []),
        ("liberasurecode_rs_vand.so.1", [os.path.join(src, "builtin/rs_vand", s) for s in rsv], []),
        ("liberasurecode.so.1", [os.path.join(src, s) for s in main],
         # what the repository's own build ends up with (readelf -d src/.libs/liberasurecode.so: NEEDED libXorcode only; its
         # LIBADD names all three plugins but the link keeps just the one whose symbols the front end references): the null and
         # rs_vand plugins are loaded with dlopen per instance and really unmapped when their last instance goes
         ["libXorcode.so.1"]),
    ]


def includes():
    inc = os.path.join(REPO, "include")
    return ["-I" + os.path.join(VERIF, "build")] + \
           ["-I" + os.path.join(inc, d) for d in
            ("erasurecode", "xor_codes", "rs_vand", "isa_l", "shss", "null_code")]


def run(cmd):
    p = subprocess.run(cmd, stdout=subprocess.PIPE, stderr=subprocess.STDOUT, text=True)
    if p.returncode != 0:
        raise RuntimeError("build command failed: %s\n%s" % (" ".join(cmd), p.stdout))
    return p.stdout


def flavour_flags(flavour):
    cc, cflags, ldflags = FLAVOURS[flavour]
    return cc, list(cflags), list(ldflags)


def build_lib(flavour, outdir, guard=True):
    """Build the four shared objects; returns the lib directory."""
    cc, cflags, ldflags = flavour_flags(flavour)
    base = os.path.join(outdir, flavour)
    objdir = os.path.join(base, "obj")
    libdir = os.path.join(base, "lib")
    os.makedirs(objdir, exist_ok=True)
    os.makedirs(libdir, exist_ok=True)
    common = ["-std=c99", "-D_GNU_SOURCE=1", "-fPIC", "-w"] + cflags + includes()
    if guard:
        common.append("-D" + GUARD)
    jobs = []
    plan = []
    for soname, srcs, deps in layout():
        objs = []
        for s in srcs:
            o = os.path.join(objdir, soname.replace(".", "_") + "__" +
                             os.path.relpath(s, REPO).replace("/", "_")[:-2] + ".o")
            objs.append(o)
            jobs.append([cc] + common + ["-c", s, "-o", o])
        plan.append((soname, objs, deps))
    with ThreadPoolExecutor(max_workers=16) as ex:
        list(ex.map(run, jobs))
    for soname, objs, deps in plan:
        out = os.path.join(libdir, soname)
        cmd = [cc, "-shared", "-Wl,-soname," + soname, "-o", out] + objs + ldflags + \
              ["-L" + libdir] + [os.path.join(libdir, d) for d in deps] + \
              ["-lz", "-lpthread", "-ldl", "-lm"]
        run(cmd)
        short = soname.rsplit(".", 1)[0]          # libX.so
        link = os.path.join(libdir, short)
        if os.path.lexists(link):
            os.unlink(link)
        os.symlink(soname, link)
    return libdir


def build_isal_ref(flavour, outdir):
    """Clean-room libisal.so.2 (verif-owned) placed next to the flavour's libs."""
    cc, cflags, ldflags = flavour_flags(flavour)
    libdir = os.path.join(outdir, flavour, "lib")
    src = os.path.join(VERIF, "isal_ref", "isal_ref.c")
    out = os.path.join(libdir, "libisal.so.2")
    san = [f for f in cflags if not f.startswith("-DINTEL") and not f.startswith("-m")]
    run([cc, "-std=gnu99", "-fPIC", "-shared", "-Wl,-soname,libisal.so.2"] + san +
        ["-o", out, src] + ldflags)
    return out


def build_shss_ref(flavour, outdir):
    """Clean-room stand-in libshss.so.1 (verif-owned) placed next to the flavour's libs."""
    cc, cflags, ldflags = flavour_flags(flavour)
    libdir = os.path.join(outdir, flavour, "lib")
    src = os.path.join(VERIF, "shss_ref", "shss_ref.c")
    out = os.path.join(libdir, "libshss.so.1")
    san = [f for f in cflags if not f.startswith("-DINTEL") and not f.startswith("-m")]
    run([cc, "-std=gnu99", "-fPIC", "-shared", "-Wl,-soname,libshss.so.1"] + san +
        ["-o", out, src] + ldflags)
    return out


def build_phazr_ref(flavour, outdir):
    """Stand-in libphazr.so.1 (verif-owned) placed next to the flavour's libs."""
    cc, cflags, ldflags = flavour_flags(flavour)
    libdir = os.path.join(outdir, flavour, "lib")
    src = os.path.join(VERIF, "phazr_ref", "phazr_ref.c")
    out = os.path.join(libdir, "libphazr.so.1")
    san = [f for f in cflags if not f.startswith("-DINTEL") and not f.startswith("-m")]
    run([cc, "-std=gnu99", "-fPIC", "-shared", "-Wl,-soname,libphazr.so.1"] + san +
        ["-o", out, src] + ldflags)
    return out


def build_jer_ref(flavour, outdir):
    """Clean-room stand-in libJerasure.so.2 (verif-owned) placed next to the flavour's libs."""
    cc, cflags, ldflags = flavour_flags(flavour)
    libdir = os.path.join(outdir, flavour, "lib")
    src = os.path.join(VERIF, "jer_ref", "jer_ref.c")
    out = os.path.join(libdir, "libJerasure.so.2")
    san = [f for f in cflags if not f.startswith("-DINTEL") and not f.startswith("-m")]
    # -z nodelete: the stand-in builds its field tables on first use; were it unmapped and mapped again at the same
    # address, ThreadSanitizer would pair accesses to the two incarnations of those tables and report a race
    run([cc, "-std=gnu99", "-fPIC", "-shared", "-Wl,-soname,libJerasure.so.2", "-Wl,-z,nodelete"] + san +
        ["-o", out, src] + ldflags + ["-lpthread"])
    return out


def build_driver(flavour, outdir, name, sources, extra_cflags=(), extra_ld=()):
    """Compile a harness driver (C) against the flavour's liberasurecode.so."""
    cc, cflags, ldflags = flavour_flags(flavour)
    base = os.path.join(outdir, flavour)
    libdir = os.path.join(base, "lib")
    bindir = os.path.join(base, "bin")
    os.makedirs(bindir, exist_ok=True)
    out = os.path.join(bindir, name)
    # drivers are not the code under test: keep sanitizer flags (same runtime) but
    # relax the UB policy for the harness' own code.
    cf = [f for f in cflags]
    cmd = [cc, "-std=gnu11", "-D_GNU_SOURCE=1", "-w"] + cf + includes() + \
          ["-I" + os.path.join(VERIF, "harness"), "-I" + os.path.join(VERIF, "ref"),
           "-D" + GUARD] + list(extra_cflags) + \
          ["-o", out] + list(sources) + ldflags + \
          [os.path.join(libdir, "liberasurecode.so.1"), "-Wl,-rpath," + libdir,
           "-rdynamic", "-lz", "-lpthread", "-ldl", "-lm"] + list(extra_ld)
    run(cmd)
    return out


if __name__ == "__main__":
    fl = sys.argv[1] if len(sys.argv) > 1 else "asan"
    out = sys.argv[2] if len(sys.argv) > 2 else "/tmp/verif_build_test"
    import time
    t = time.time()
    print(build_lib(fl, out), "%.1fs" % (time.time() - t))
