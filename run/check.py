#!/usr/bin/env python3
"""Orchestrator: build -> shard -> run -> collect -> known findings -> evidence -> exit code.

usage: check.py <ID> [--tier quick|thorough] [--seed N] [--keep]
       check.py replay <witness.json>
exit:  0 property held on everything explored (KNOWN-FINDING lines allowed)
       1 violation (one `VIOLATION property=<id> replay=<path>` line per distinct key)
       2 inconclusive / harness failure (never a VIOLATION line)
"""
import os, sys, json, time, re, shutil, subprocess, hashlib, fnmatch, array, signal
from concurrent.futures import ThreadPoolExecutor

HERE = os.path.dirname(os.path.abspath(__file__))
VERIF = os.path.dirname(HERE)
# self-test runs (mutants) must not overwrite the committed evidence / replays
EVID_DIR = os.environ.get("VERIF_EVIDENCE_DIR") or os.path.join(VERIF, "evidence")
REPLAY_DIR = os.environ.get("VERIF_REPLAY_DIR") or os.path.join(VERIF, "replays")
sys.path.insert(0, HERE)
import build as B
from props import PROPS, DRIVER_SOURCES

NCPU = 16


def log(*a):
    print(*a, flush=True)


# --------------------------------------------------------------------------
def san_env(flavour, libdir, leaks, workdir, tag):
    env = dict(os.environ)
    env["LD_LIBRARY_PATH"] = libdir
    env.pop("LIBERASURECODE_WRITE_LEGACY_CRC", None)
    env["ASAN_OPTIONS"] = ("abort_on_error=0:exitcode=99:detect_odr_violation=0:malloc_fill_byte=165:"
                           "max_malloc_fill_size=1048576:allocator_may_return_null=1:"
                           "detect_leaks=%d:handle_abort=1:print_summary=1" % (1 if leaks else 0))
    env["UBSAN_OPTIONS"] = "print_stacktrace=1:halt_on_error=1:exitcode=98"
    env["LSAN_OPTIONS"] = "exitcode=97:print_suppressions=0"
    env["TSAN_OPTIONS"] = "halt_on_error=0:exitcode=66:second_deadlock_stack=1:history_size=4:suppressions=%s:log_path=%s" % \
        (os.path.join(HERE, "tsan.supp"), os.path.join(workdir, "tsan_" + tag))
    return env


def classify_stderr(txt, rc):
    """Return a short, line-number-free kind for an abnormal exit."""
    m = re.search(r"ERROR: AddressSanitizer: ([\w-]+)", txt)
    if m:
        kind = "asan:" + m.group(1)
        fm = re.search(r"#\d+ 0x[0-9a-f]+ in (\w+) .*?/(?:src|include)/", txt)
        if fm:
            kind += "@" + fm.group(1)
        return kind
    m = re.search(r"==\d+== (Conditional jump or move depends on uninitialised value|Use of uninitialised value|Invalid read|Invalid write|Invalid free|Mismatched free|Syscall param [^\n]*uninitialised|Source and destination overlap|Jump to the invalid address)", txt)
    if m:
        # valgrind memcheck (runs with --exit-on-first-error): innermost frame that is not one of memcheck's own replacements
        kind = "memcheck:" + re.sub(r"[^A-Za-z]+", "_", m.group(1)).strip("_").lower()[:60]
        for fm in re.finditer(r"==\d+==\s+(?:at|by) 0x[0-9A-Fa-f]+: (\w+)", txt[m.end():]):
            if fm.group(1) not in ("memcpy", "memmove", "memcmp", "bcmp", "memset", "strlen", "strcpy", "strcmp", "free", "malloc", "calloc", "realloc", "posix_memalign"):
                kind += "@" + fm.group(1)
                break
        return kind
    if "Exit program on first error (--exit-on-first-error=yes)" in txt:
        m = re.search(r"==\d+== ([A-Z][^\n]{5,80})", txt)
        return "memcheck:" + (re.sub(r"[^A-Za-z]+", "_", re.sub(r"-?\d+", "N", m.group(1))).strip("_").lower()[:60] if m else "report")
    m = re.search(r"runtime error: ([^\n]*)", txt)
    if m:
        msg = re.sub(r"0x[0-9a-f]+", "ADDR", m.group(1))
        msg = re.sub(r"-?\d+", "N", msg)
        fm = re.search(r"([\w./-]+\.[ch]):\d+:\d+: runtime error", txt)
        return "ubsan:" + msg.strip()[:80].replace(" ", "_") + ("@" + os.path.basename(fm.group(1)) if fm else "")
    if "LeakSanitizer has encountered a fatal error" in txt:
        return "infra:lsan-tracer-failed"          # the sanitizer's own stop-the-world tracer died: says nothing about the library
    if "LeakSanitizer" in txt:
        return "lsan:leak"
    if "Assertion" in txt and "failed" in txt:
        m = re.search(r"(\w+): Assertion", txt)
        return "assert" + ("@" + m.group(1) if m else "")
    if rc < 0:
        try:
            return "signal:" + signal.Signals(-rc).name
        except ValueError:
            return "signal:%d" % -rc
    return "exit:%d" % rc


class ShardResult:
    def __init__(self):
        self.stats = {}
        self.dist_counts = {}
        self.samples = []
        self.viols = []          # (prop, case_idx, key, detail, extra)
        self.done = False
        self.inconclusive = []
        self.restarts = 0
        self.tsan_reports = []
        self.case_keys = []          # keys of cases seen in attempts that did not finish (stats lost)
        self.lost_cases = set()


def parse_log(path, res):
    """Parse one shard log; returns (done, open_case_idx, open_case_key, last_fault)."""
    done = False
    open_idx, open_key, fault = None, None, None
    res.restart_at = None
    res.crashdump = False
    try:
        f = open(path, "r", errors="replace")
    except OSError:
        return False, None, None, None
    with f:
        for line in f:
            line = line.rstrip("\n")
            if line.startswith("CASE "):
                _, idx, key = (line.split(" ", 2) + [""])[:3]
                open_idx, open_key = int(idx), key
                res.case_keys.append(key)
            elif line.startswith("END "):
                open_idx, open_key = None, None
            elif line.startswith("VIOL "):
                m = re.match(r"VIOL (\S+) (-?\d+) (.*?) :: (.*)$", line)
                if m:
                    res.viols.append((m.group(1), int(m.group(2)), m.group(3), m.group(4), ""))
            elif line.startswith("STAT "):
                _, name, v = line.rsplit(" ", 2)
                res.stats[name] = res.stats.get(name, 0) + int(v)
            elif line.startswith("DIST "):
                _, name, v = line.rsplit(" ", 2)
                res.dist_counts[name] = res.dist_counts.get(name, 0) + int(v)
            elif line.startswith("SAMPLE "):
                if len(res.samples) < 12:
                    res.samples.append(line[7:])
            elif line.startswith("FAULT "):
                fault = line
            elif line.startswith("FRAMES ") and fault:
                fault = fault + " | " + line
            elif line.startswith("HARNESS "):
                res.inconclusive.append(line)
            elif line.startswith("RESTART "):
                res.restart_at = int(line.split()[1])
            elif line == "CRASHDUMP":
                res.crashdump = True
            elif line == "DONE":
                done = True
    return done, open_idx, open_key, fault


def run_shard(binpath, args, env, workdir, tag, prop, timeout, max_restarts=400, stop_after_crashes=None, wrapper=()):
    """Run one shard to completion, restarting after every crashing case."""
    res = ShardResult()
    start = 0
    attempt = 0
    timeouts = 0
    pending_timeouts = []        # a case that ran into the watchdog (or was killed from outside) is retried once; if the retry
                                 # gets through, the incident is only counted (watchdog_retries), not a verdict of any kind
    while True:
        logp = os.path.join(workdir, "%s.%d.log" % (tag, attempt))
        errp = os.path.join(workdir, "%s.%d.err" % (tag, attempt))
        distp = os.path.join(workdir, "%s.dist" % tag)
        cmd = list(wrapper) + [binpath] + args + ["--log", logp, "--dist", distp, "--start", str(start)]
        with open(errp, "wb") as ef:
            try:
                p = subprocess.run(cmd, env=env, stdout=ef, stderr=subprocess.STDOUT, timeout=timeout)
                rc = p.returncode
                timed_out = False
            except subprocess.TimeoutExpired:
                rc, timed_out = -9, True
        tmp = ShardResult()
        done, open_idx, open_key, fault = parse_log(logp, tmp)
        # merge
        for k, v in tmp.stats.items():
            res.stats[k] = res.stats.get(k, 0) + v
        res.samples += tmp.samples
        res.viols += tmp.viols
        res.inconclusive += tmp.inconclusive
        err = open(errp, "r", errors="replace").read()
        if not done and not (rc == 77 and tmp.restart_at is not None) and not tmp.crashdump:
            res.lost_cases.update(hash(k) for k in tmp.case_keys)     # counters of this attempt died with it
        if done and rc == 0:
            res.done = True
            if pending_timeouts:
                res.stats["watchdog_retries_that_succeeded"] = res.stats.get("watchdog_retries_that_succeeded", 0) + len(pending_timeouts)
            break
        if rc == 77 and tmp.restart_at is not None:
            start = tmp.restart_at + 1
            attempt += 1
            res.planned_restarts = getattr(res, "planned_restarts", 0) + 1
            if res.planned_restarts > max_restarts:
                res.inconclusive.append("more than %d planned restarts in %s" % (max_restarts, tag))
                break
            continue
        if rc == -9 and not timed_out:
            # killed from outside (out-of-memory killer, operator): the library cannot do that to itself; same
            # treatment as the watchdog - retry the case once, then inconclusive, never a violation
            timed_out = True
            res.external_kills = getattr(res, "external_kills", 0) + 1
        if timed_out:
            timeouts += 1
            if stop_after_crashes is not None and res.viols:
                res.done = True
                break
            pending_timeouts.append("%s in %s at case %s (%s)" % ("killed from outside" if rc == -9 and getattr(res, "external_kills", 0) else "timeout", tag, open_idx, open_key))
            if timeouts >= 2 or open_idx is None:
                res.inconclusive += pending_timeouts      # the retry did not get through either
                break
            start = open_idx          # retry the same case once
            attempt += 1
            continue
        kind = classify_stderr(err, rc)
        if kind.startswith("infra:"):
            # failure of the tooling, not an observation about the library: same treatment as the watchdog
            timeouts += 1
            res.stats["sanitizer_infrastructure_failures"] = res.stats.get("sanitizer_infrastructure_failures", 0) + 1
            pending_timeouts.append("%s in %s at case %s (%s)" % (kind, tag, open_idx, open_key))
            if timeouts >= 2 or open_idx is None:
                res.inconclusive += pending_timeouts
                break
            start = open_idx
            attempt += 1
            continue
        if kind.startswith("signal:") and fault:
            ms = re.search(r"sig=(\d+)", fault)
            if ms:
                try:
                    kind = "signal:" + signal.Signals(int(ms.group(1))).name
                except ValueError:
                    pass
        if kind.startswith("signal:") and fault and "FRAMES" in fault:
            # plain builds: name the innermost frame that lies in one of the library objects
            for fr in fault.split("FRAMES", 1)[1].split()[1:]:
                nm, _, obj = fr.partition("@")
                if re.match(r"lib(erasurecode|Xorcode|nullcode|isal)", obj):
                    kind += "@" + (nm if not nm.startswith("+") else obj.split(".")[0] + nm)
                    break
        if done and rc == 66:
            # ThreadSanitizer's exit code: its reports are collected from the log files below
            res.done = True
            break
        if done:
            # died after DONE: at-exit report (LeakSanitizer or a destructor fault)
            res.viols.append((prop, -1, "%s|at-exit|%s" % (prop, kind), "process exit code %d after workload completed" % rc, err[-6000:]))
            res.done = True
            break
        if open_idx is None:
            res.inconclusive.append("driver died outside any case in %s rc=%s kind=%s: %s" % (tag, rc, kind, err[-800:]))
            break
        key = "%s|%s|crash:%s" % (prop, open_key, kind)
        detail = "process died (rc=%d) inside case %d; %s" % (rc, open_idx, (fault or "").strip())
        res.viols.append((prop, open_idx, key, detail, err[-8000:]))
        res.restarts += 1
        if stop_after_crashes is not None and res.restarts >= stop_after_crashes:
            # enough witnesses from this shard (racy trees crash in most rounds); the verdict is already "violated"
            res.done = True
            break
        if res.restarts > max_restarts:
            res.inconclusive.append("more than %d crashing cases in %s" % (max_restarts, tag))
            break
        start = open_idx + 1
        attempt += 1
    # tsan logs
    for fn in os.listdir(workdir):
        if fn.startswith("tsan_" + tag + "."):
            try:
                res.tsan_reports.append(open(os.path.join(workdir, fn), "r", errors="replace").read())
            except OSError:
                pass
    return res


# --------------------------------------------------------------------------
def tsan_dedupe(texts):
    """Split ThreadSanitizer logs into reports; key = kind + top library frames of both stacks."""
    out = {}
    for t in texts:
        for rep in re.split(r"={18}\n", t):
            m = re.search(r"WARNING: ThreadSanitizer: ([^\n(]+)", rep)
            if not m:
                continue
            kind = m.group(1).strip()
            stacks = re.split(r"\n\s*\n", rep)
            tops = []
            for st in stacks:
                head = st.strip().split("\n")[0] if st.strip() else ""
                if not re.search(r"(Write|Read|Previous|Atomic).* of size|Mutex|Thread T\d+ .*created|acquired", head) \
                        and "of size" not in head:
                    continue
                if "of size" not in head or not re.match(r"\s*(Write|Read|Previous|Atomic)", head):
                    continue
                fr = [re.sub(r":\d+(:\d+)?", "", f.strip()) for f in re.findall(r"#\d+ (\w+) ", st)]
                libfr = [f for f in fr if not f.startswith("__") and f not in ("main",)]
                tops.append(libfr[0] if libfr else "?")
            key = kind.replace(" ", "_") + ":" + "<>".join(sorted(tops[:2]))
            out.setdefault(key, rep[:6000])
    return out


def load_known():
    p = os.path.join(VERIF, "known_findings.json")
    try:
        return json.load(open(p)).get("findings", [])
    except (OSError, ValueError):
        return []


def witness_path(prop, key):
    h = hashlib.sha1(key.encode()).hexdigest()[:12]
    return os.path.join(REPLAY_DIR, "%s-%s.json" % (prop, h))


def union_dist(workdir, cls_nontrivial):
    """Exact union of the per-shard distinct-hash side files for one class."""
    vals = set()
    for root, _, files in os.walk(workdir):
        for fn in files:
            if fn.endswith(".dist." + cls_nontrivial):
                a = array.array("Q")
                data = open(os.path.join(root, fn), "rb").read()
                a.frombytes(data[: len(data) // 8 * 8])
                vals.update(a)
    return len(vals)


def main():
    argv = sys.argv[1:]
    if not argv:
        print(__doc__)
        return 2
    if argv[0] == "replay":
        return replay(argv[1])
    prop = argv[0]
    tier = os.environ.get("VERIF_TIER") or "quick"
    seed = int(os.environ.get("VERIF_SEED") or "1")
    keep = False
    only_run = None
    i = 1
    while i < len(argv):
        if argv[i] == "--tier":
            tier = argv[i + 1]; i += 1
        elif argv[i] == "--seed":
            seed = int(argv[i + 1]); i += 1
        elif argv[i] == "--keep":
            keep = True
        elif argv[i] == "--run":
            only_run = argv[i + 1]; i += 1
        i += 1
    if tier not in ("quick", "thorough"):
        tier = "quick"
    if prop not in PROPS:
        log("unknown property", prop)
        return 2
    spec = PROPS[prop]
    t0 = time.time()
    workdir = os.path.join(os.environ.get("VERIF_WORK_DIR") or os.path.join(VERIF, "_work"), "%s_%d" % (prop, os.getpid()))
    shutil.rmtree(workdir, ignore_errors=True)
    os.makedirs(workdir)
    rc = 2
    try:
        rc = run_check(prop, spec, tier, seed, workdir, t0, only_run)
    except Exception as e:          # harness failure: inconclusive, never a violation
        import traceback
        traceback.print_exc()
        log("INCONCLUSIVE property=%s harness failure: %s" % (prop, e))
        rc = 2
    finally:
        if not keep:
            shutil.rmtree(workdir, ignore_errors=True)
            try:
                os.rmdir(os.path.join(VERIF, "_work"))
            except OSError:
                pass
    return rc


def build_all(flavours, workdir, drivers, pairs=None):
    """Build libs (+ isal ref + driver binaries) for all flavours in parallel.
    pairs: set of (flavour, driver) actually needed (default: every combination)."""
    def one(fl):
        libdir = B.build_lib(fl, workdir)
        B.build_isal_ref(fl, workdir)
        B.build_shss_ref(fl, workdir)
        B.build_jer_ref(fl, workdir)
        B.build_phazr_ref(fl, workdir)
        bins = {}
        for d in drivers:
            if pairs is not None and (fl, d) not in pairs:
                continue
            srcs = [os.path.join(VERIF, s) for s in DRIVER_SOURCES[d]["src"]]
            cfl = list(DRIVER_SOURCES[d].get("cflags", []))
            bins[d] = B.build_driver(fl, workdir, d, srcs, extra_cflags=cfl,
                                     extra_ld=DRIVER_SOURCES[d].get("ld", []))
        return fl, libdir, bins
    with ThreadPoolExecutor(max_workers=4) as ex:
        return {fl: (libdir, bins) for fl, libdir, bins in ex.map(one, flavours)}


def run_check(prop, spec, tier, seed, workdir, t0, only_run=None):
    runs = [r for r in spec["runs"] + spec.get("extra_runs", []) if tier in r.get("tiers", ("quick", "thorough"))]
    if only_run:
        runs = [r for r in runs if r.get("name") == only_run]
    flavours = sorted({r["flavour"] for r in runs})
    drivers = sorted({r["driver"] for r in runs})
    tb = time.time()
    built = build_all(flavours, workdir, drivers, pairs={(r["flavour"], r["driver"]) for r in runs})
    build_s = time.time() - tb

    # schedule all shards of all runs on a 16-wide pool
    jobs = []
    # thorough tier: the whole workload is repeated under further seeds (seed, seed+1, ...); the enumerated parts are the
    # same in every repetition, the sampled parts (shapes, erasure sets, histories, mutations, interleavings) are new ones
    reps = spec.get("thorough_seeds", 1) if tier == "thorough" else 1
    for ri, r in enumerate(runs):
      for rep in range(reps):
        shards = r.get("shards", NCPU)
        if callable(shards):
            shards = shards(tier)
        libdir, bins = built[r["flavour"]]
        for sh in range(shards):
            args = ["--prop", prop, "--tier", r.get("driver_tier", tier), "--seed", str(seed + rep), "--shard", "%d/%d" % (sh, shards)]
            args += [str(a) for a in r.get("args", [])]
            if tier in r.get("tier_args", {}):
                args += [str(a) for a in r["tier_args"][tier]]
            if r.get("noise") and sh % 2 == 1:
                # odd shards: a second thread keeps using the library (own instances + the instance under test)
                args += ["--noise", "1"]
            tag = "r%d_%s_s%d" % (ri, r["flavour"], sh) + ("_x%d" % rep if rep else "")
            env = san_env(r["flavour"], libdir, r.get("leaks", False), workdir, tag)
            env.update(r.get("env", {}))
            timeout = r.get("timeout", {"quick": 600, "thorough": 7200})[tier]
            jobs.append((ri, bins[r["driver"]], args, env, tag, timeout, r.get("stop_after_crashes"), tuple(r.get("wrapper", ()))))

    def go(j):
        ri, binp, args, env, tag, timeout, sac, wrapper = j
        return ri, run_shard(binp, args, env, workdir, tag, prop, timeout, stop_after_crashes=sac, wrapper=wrapper), args

    results = []
    with ThreadPoolExecutor(max_workers=NCPU) as ex:
        for out in ex.map(go, jobs):
            results.append(out)

    # ---- aggregate ----
    stats, samples, viols, inconcl = {}, [], [], []
    tsan_texts = []
    per_run = {}
    for ri, res, args in results:
        r = runs[ri]
        name = r.get("name", "run%d" % ri)
        pr = per_run.setdefault(name, {"flavour": r["flavour"], "driver": r["driver"], "shards": 0, "cases": 0, "crash_restarts": 0})
        pr["shards"] += 1
        pr["cases"] += res.stats.get("cases", 0)
        pr["crash_restarts"] += res.restarts
        for k, v in res.stats.items():
            stats[k] = stats.get(k, 0) + v
        for s in res.samples:
            if len(samples) < 8:
                samples.append(s)
        for v in res.viols:
            viols.append(v + (ri, args))
        inconcl += res.inconclusive
        if not res.done and not res.inconclusive:
            inconcl.append("shard did not finish: %s" % " ".join(args))
        tsan_texts += res.tsan_reports

    # ThreadSanitizer reports -> violations
    tsan = tsan_dedupe(tsan_texts) if tsan_texts else {}
    for key, rep in tsan.items():
        viols.append((prop, -1, "%s|tsan|%s" % (prop, key), "ThreadSanitizer report", rep, -1, []))

    ncls = spec.get("distinct_class", "nontrivial")
    distinct = union_dist(workdir, ncls)
    evaluations = stats.get(spec.get("eval_stat", "evaluations"), 0)
    lost = set()
    for ri, res, args in results:
        lost |= res.lost_cases
    lost_note = ""
    if lost:
        # processes that died took their counters with them: add the cases seen in the event log as a lower bound
        evaluations += len(lost)
        distinct += len(lost)
        lost_note = "%d case(s) ran in processes that crashed; they are counted from the event log (one evaluation / one distinct case key each)" % len(lost)

    # ---- known findings ----
    known = load_known()
    distinct_viol = {}
    for v in viols:
        distinct_viol.setdefault(v[2], v)
    reported, known_hit = [], {}
    for key, v in sorted(distinct_viol.items()):
        hit = None
        for kf in known:
            if kf.get("status") != "open":
                continue
            if kf.get("property") not in (v[0], prop):
                continue
            pat = kf.get("key", "")
            if key == pat or fnmatch.fnmatchcase(key, pat):
                hit = kf
                break
        if hit:
            known_hit.setdefault(hit["key"], (hit, 0))
            known_hit[hit["key"]] = (hit, known_hit[hit["key"]][1] + 1)
        else:
            reported.append(v)

    os.makedirs(REPLAY_DIR, exist_ok=True)
    for hit, cnt in known_hit.values():
        log("KNOWN-FINDING: property=%s %s (%d matching case(s) this run)" % (hit["property"], hit["what"], cnt))
    max_lines = 40
    for n, v in enumerate(reported):
        vprop, idx, key, detail, extra, ri, args = v
        wp = witness_path(vprop, key)
        if n < max_lines:
            r = runs[ri] if ri >= 0 else runs[0]
            json.dump({"property": vprop, "key": key, "detail": detail, "case_index": idx,
                       "driver": r["driver"], "flavour": r["flavour"], "args": args,
                       "seed": seed, "tier": tier, "report": extra}, open(wp, "w"), indent=1)
            log("VIOLATION property=%s replay=%s" % (vprop, wp))
            log("  key: %s" % key)
            log("  %s" % detail[:600])
    if len(reported) > max_lines:
        log("  ... %d further distinct violation keys not listed" % (len(reported) - max_lines))

    # ---- verdict ----
    wall = time.time() - t0
    verdict = "held"
    if reported:
        verdict = "violated"
    elif inconcl or distinct < 2 or evaluations < 1:
        verdict = "inconclusive"
    need = spec.get("require_stats", [])
    missing = [s for s in need if stats.get(s, 0) <= 0]
    if missing and verdict == "held":
        verdict = "inconclusive"
        inconcl.append("required event classes never observed: %s" % ",".join(missing))

    cov = {
        "evaluations": int(evaluations),
        "distinct_nontrivial": int(distinct),
        "rule": spec["rule"],
        "samples": samples if samples else ["(no sample emitted)"],
        "exhaustive": bool(spec.get("exhaustive", {}).get(tier, False)),
        "exhaustive_scope": spec.get("exhaustive_scope", ""),
        "counters": {k: v for k, v in sorted(stats.items())},
        "runs": per_run,
        "seeds_used": [seed + i for i in range(reps)],
        "flavours": flavours,
        "sanitizer_reports": len([v for v in distinct_viol.values() if "crash:" in v[2] or "|tsan|" in v[2]]),
        "tsan_report_classes": sorted(tsan.keys()),
        "known_findings_hit": [h["key"] for h, _ in known_hit.values()],
        "verdict": verdict,
        "inconclusive_reasons": inconcl[:10],
        "crash_accounting": lost_note,
        "build_s": round(build_s, 1),
    }
    ev = {
        "property_id": prop, "tier": tier, "seed": seed, "level": spec["level"],
        "coverage": cov,
        "assumptions": spec.get("assumptions", []),
        "wall_s": round(wall, 1),
        "violations": len(reported),
    }
    os.makedirs(EVID_DIR, exist_ok=True)
    evp = os.path.join(EVID_DIR, "%s.json" % prop)
    json.dump(ev, open(evp, "w"), indent=1)
    try:
        validate_evidence(evp)
    except Exception as e:
        if verdict != "violated":
            raise
        log("note: evidence file does not validate on this violated run: %s" % str(e)[:300])
    log("%s tier=%s seed=%d verdict=%s evaluations=%d distinct_nontrivial=%d violations=%d known=%d wall=%.1fs" %
        (prop, tier, seed, verdict, evaluations, distinct, len(reported), len(known_hit), wall))
    for k in sorted(stats):
        log("  %-40s %d" % (k, stats[k]))
    if verdict == "violated":
        return 1
    if verdict == "inconclusive":
        for m in inconcl[:10]:
            log("INCONCLUSIVE: %s" % m[:500])
        if distinct < 2:
            log("INCONCLUSIVE: monitor observed %d distinct non-trivial cases" % distinct)
        return 2
    return 0


def validate_evidence(path):
    try:
        import jsonschema
    except ImportError:
        # the system python has no jsonschema; the tooling venv does
        import shutil as _sh
        vt = _sh.which("python3-vt")
        if vt:
            code = ("import json,jsonschema,sys;"
                    "jsonschema.validate(json.load(open(sys.argv[1])), json.load(open('/root/.vp/EVIDENCE.schema.json')))")
            p = subprocess.run([vt, "-c", code, path], stdout=subprocess.PIPE, stderr=subprocess.STDOUT, text=True)
            if p.returncode != 0:
                raise RuntimeError("evidence file does not validate: " + p.stdout[-600:])
        return
    try:
        schema = json.load(open("/root/.vp/EVIDENCE.schema.json"))
    except OSError:
        return
    jsonschema.validate(json.load(open(path)), schema)


def replay(path):
    w = json.load(open(path))
    prop = w["property"]
    workdir = os.path.join(VERIF, "_work", "replay_%d" % os.getpid())
    shutil.rmtree(workdir, ignore_errors=True)
    os.makedirs(workdir)
    try:
        built = build_all([w["flavour"]], workdir, [w["driver"]])
        libdir, bins = built[w["flavour"]]
        env = san_env(w["flavour"], libdir, False, workdir, "replay")
        args = [a for a in w["args"]]
        # single process, only the witness case
        if "--shard" in args:
            i = args.index("--shard"); del args[i:i + 2]
        cmd = [bins[w["driver"]]] + args + ["--only", str(w["case_index"])]
        log("replaying:", " ".join(cmd))
        p = subprocess.run(cmd, env=env, stdout=subprocess.PIPE, stderr=subprocess.STDOUT, text=True, errors="replace")
        log(p.stdout[-8000:])
        bad = ("VIOL " in p.stdout) or p.returncode != 0
        log("replay: %s (rc=%d)" % ("violation reproduced" if bad else "no violation", p.returncode))
        return 1 if bad else 0
    finally:
        shutil.rmtree(workdir, ignore_errors=True)


if __name__ == "__main__":
    sys.exit(main())
