#!/usr/bin/env python3
"""Confirm independently seeded changes (written by sub-agents that saw only the
property text) before they are kept under /verif/seeded/<id>/:

  * patch applies to /repo's HEAD, library still builds (repository's own autotools build),
  * the repository's test suite (make test) still passes with the change,
  * the demonstration exits 0 on the unchanged build and non-zero on the changed build.

usage: confirm_seed.py <src-dir-with-patch.diff+demo.c> <id> <property> [--checks C01,C15]
Works in one scratch worktree /tmp/seedconf/wt (built once, reused), removed with --cleanup.
Writes /verif/seeded/<id>/{patch.diff,demo.c,README.md,meta.json} when everything is confirmed.
"""
import os, sys, subprocess, shutil, json, glob, re, time

VERIF = os.path.dirname(os.path.dirname(os.path.abspath(__file__)))
WT = "/tmp/seedconf/wt"


def sh(cmd, cwd=None, env=None, timeout=1800):
    p = subprocess.run(cmd, cwd=cwd, env=env, shell=isinstance(cmd, str), stdout=subprocess.PIPE, stderr=subprocess.STDOUT, text=True, errors="replace", timeout=timeout)
    return p.returncode, p.stdout


def ensure_wt():
    if os.path.exists(os.path.join(WT, "src/.libs/liberasurecode.so")):
        sh("git checkout -- . && make -j8", cwd=WT)
        return
    os.makedirs(os.path.dirname(WT), exist_ok=True)
    sh(["git", "-C", "/repo", "worktree", "remove", "--force", WT])
    rc, out = sh(["git", "-C", "/repo", "worktree", "add", "--detach", WT, "HEAD"])
    assert rc == 0, out
    rc, out = sh("./autogen.sh >/dev/null 2>&1 && ./configure >/dev/null 2>&1 && make -j8", cwd=WT)
    assert rc == 0, out[-2000:]


def libpath():
    dirs = [os.path.join(WT, d) for d in ("src/.libs", "src/builtin/xor_codes/.libs", "src/builtin/rs_vand/.libs", "src/builtin/null_code/.libs")]
    return ":".join(dirs)


def build_demo(src, extra_lib_dir=None):
    exe = os.path.join("/tmp/seedconf", "demo_bin")
    inc = ["-I" + os.path.join(WT, d) for d in ("include", "include/erasurecode", "include/xor_codes", "include/rs_vand", "include/isa_l")]
    cmd = ["gcc", "-std=gnu11", "-D_GNU_SOURCE", "-g", "-O1", "-w"] + inc + [src, "-o", exe, os.path.join(WT, "src/.libs/liberasurecode.so"),
           "-Wl,-rpath," + libpath(), "-lpthread", "-ldl", "-lz", "-lm"]
    rc, out = sh(cmd)
    return rc, out, exe


def run_demo(exe, extra_ld=None):
    env = dict(os.environ)
    env["LD_LIBRARY_PATH"] = libpath() + (":" + extra_ld if extra_ld else "")
    try:
        rc, out = sh([exe], env=env, timeout=600, cwd=os.path.dirname(exe))
    except subprocess.TimeoutExpired:
        return 124, "timeout"
    return rc, out


def main():
    if sys.argv[1] == "--cleanup":
        sh(["git", "-C", "/repo", "worktree", "remove", "--force", WT]); shutil.rmtree("/tmp/seedconf", ignore_errors=True); return 0
    src, sid, prop = sys.argv[1], sys.argv[2], sys.argv[3]
    checks = [prop]
    extra_ld = None
    pre_cmd = None
    for i, a in enumerate(sys.argv):
        if a == "--checks": checks = sys.argv[i + 1].split(",")
        if a == "--extra-ld": extra_ld = sys.argv[i + 1]
        if a == "--pre": pre_cmd = sys.argv[i + 1]       # shell command run in the source dir before building the demo (e.g. build a stub plugin)
    ensure_wt()
    patch = os.path.join(src, "patch.diff")
    demo = os.path.join(src, "demo.c")
    log = {}
    if pre_cmd:
        rc, out = sh(pre_cmd, cwd=src, env=dict(os.environ, WT=WT)); log["pre"] = (rc, out[-500:])
    # 1. unchanged
    rc, out, exe = build_demo(demo)
    if rc != 0: print("demo does not build:\n", out[-3000:]); return 1
    rc0, out0 = run_demo(exe, extra_ld)
    print("demo on unchanged build: rc=%d" % rc0); print(out0[-600:])
    # 2. changed
    rc, out = sh(["git", "apply", patch], cwd=WT)
    if rc != 0: print("patch does not apply:", out); return 1
    rc, out = sh("make -j8", cwd=WT)
    if rc != 0: print("changed tree does not build:\n", out[-2000:]); sh("git checkout -- .", cwd=WT); return 1
    t = time.time()
    rct, outt = sh("make test", cwd=WT)
    oks = len(re.findall(r"\.\.\. ok|^ok ", outt, re.M))
    print("make test with the change: rc=%d ok-lines=%d (%.0fs)" % (rct, oks, time.time() - t))
    rc, out, exe = build_demo(demo)
    rc1, out1 = run_demo(exe, extra_ld)
    print("demo on changed build: rc=%d" % rc1); print(out1[-800:])
    sh("git checkout -- . && make -j8", cwd=WT)
    confirmed = rc0 == 0 and rc1 != 0 and rct == 0
    print("CONFIRMED" if confirmed else "NOT CONFIRMED")
    if not confirmed: return 1
    dst = os.path.join(VERIF, "seeded", sid)
    os.makedirs(dst, exist_ok=True)
    for f in os.listdir(src):
        if f.endswith((".c", ".sh", ".md", ".diff", ".h", ".py")): shutil.copy(os.path.join(src, f), os.path.join(dst, f))
    readme = open(os.path.join(src, "README.md")).read() if os.path.exists(os.path.join(src, "README.md")) else ""
    meta = {"property": prop, "checks": checks, "origin": "independent sub-agent given only the property text and a scratch worktree",
            "needs": "see README.md", "confirmed": {"demo_rc_unchanged": rc0, "demo_rc_changed": rc1, "make_test_rc_changed": rct, "make_test_ok_lines": oks,
            "how": "run/confirm_seed.py: scratch worktree of /repo HEAD under /tmp/seedconf, repository autotools build, demo built against it before and after `git apply patch.diff`, `make test` after"}}
    json.dump(meta, open(os.path.join(dst, "meta.json"), "w"), indent=1)
    return 0


if __name__ == "__main__":
    sys.exit(main())
