#!/usr/bin/env python3
"""Fill the result tables of DESIGN.md section 10 from mutants/index.json, mutants/RESULTS.json and seeded/*/meta.json."""
import json, os, re, glob
V = os.path.dirname(os.path.dirname(os.path.abspath(__file__)))
idx = json.load(open(os.path.join(V, "mutants/index.json")))
res = json.load(open(os.path.join(V, "mutants/RESULTS.json")))
SEED_NOTES = {
 "C01_a": ("unaligned *parity* fragment copied with length fragment_len-80 (tail of its payload left zero)", "data erased + a used surviving parity in a non-16-byte-aligned buffer"),
 "C02_a": ("num_missing_data_in_parity stops counting after hd-1 list entries", "flat-XOR, at least hd data fragments missing but total <= m (band hd..m): rc 0 with wrong bytes"),
 "C03_a": ("RS parity reconstruction uses the generator coefficient of the first lost data element for all of them", "rs_vand, destination a missing parity other than the first, >= 2 data fragments lost as well"),
 "C04_a": ("m == 2 'fast path' returns a RAID-6 style generator (powers of two) instead of the canonical one", "only shapes with m == 2, k >= 2; still MDS and self-consistent"),
 "C05_a": ("new one-pass P xor Q helper whose tail loop stops at blocksize % 16", "hd=4, three data erased with no parity covering exactly one of them, payload not a multiple of 16"),
 "C06_a": ("list shrink hoisted out of if/else in fragments_needed_two_data", "flat-XOR hd=4, R u X = two data + the only parity isolating the first-listed data element"),
 "C07_a": ("data fragments allocated without zeroing, tail memset placed under `if (data_len > 0)`", "input so short that a data fragment receives no bytes, and a dirty heap"),
 "C08_a": ("per-thread cache of the last descriptor in get_aligned_data_size, never invalidated", "create D, query D, destroy D, query D again"),
 "C09_a": ("version gate `<` -> `<=`", "header whose writer version is exactly 1.2.0 with a wrong metadata CRC"),
 "C10_a": ("reader with the legacy switch set tries the historical CRC twice and never the standard one", "fragment written with the switch unset/''/'0' and read with '1'/'yes'"),
 "C11_a": ("legacy-CRC fallback compares against the raw (unswapped) stored checksum", "opposite-endian fragment, CRC32, payload checksum written with the legacy CRC, intact payload"),
 "C12_a": ("fragment index copied into an int before the range test", "re-sealed fragment whose idx is >= 2^31"),
 "C13_a": ("decode's minimum fragment_len compared with sizeof(fragment_metadata_t) = 59", "decode with fragment_len in 59..79 on fragments with valid headers"),
 "C14_a": ("lookup rejects descriptors above the current counter as 'never issued'", "counter wraps past INT_MAX while an instance with a high descriptor is still live"),
 "C15_a": ("P xor Q computed in place in the caller's parity fragment and undone afterwards", "flat-XOR hd=4, three data erased with no isolating parity, 16-byte aligned input fragments"),
 "C16_a": ("free of the P xor Q scratch buffer lost when a memcpy was hoisted", "flat-XOR hd=4, the few three-data erasure triples that take the P xor Q branch"),
 "C17_a": ("`out:` label of reconstruct moved below the loops freeing prepared buffers", "backend reconstruct reports failure after fragment preparation"),
 "C18_a": ("register allocates the descriptor under the read lock, write lock only for the insert", "two threads inside create at once (counter increment interleaved with another walk)"),
 "C19_a": ("d_idx_unavail hoisted to function scope in get_inverse_rows (not reset per parity row)", "ISA-L adapters, >= 1 data and >= 2 parity missing, destination a missing parity other than the lowest"),
 "C20_a": ("forced check skips validation of parity when all k data indexes were handed in", "all data present, one data fragment damaged and a damaged parity the backend uses"),
}
def short(k, n=95):
    k = k or ""
    return (k[:n] + "...") if len(k) > n else k
rows = ["| change | what it does | check: result (first violation key) |", "|---|---|---|"]
tot = det = 0
for m in idx["mutants"]:
    name = m["patch"][:-6]
    r = res.get(name, {})
    cells = []
    for c in m["checks"]:
        v = r.get("checks", {}).get(c)
        if v is None: cells.append("%s: not run" % c); continue
        tot += 1; det += 1 if v["detected"] else 0
        cells.append("%s: %s (`%s`)" % (c, "caught" if v["detected"] else "MISSED", short(v.get("first_key"))))
    rows.append("| `%s` | %s | %s |" % (name, m.get("note", ""), "<br>".join(cells)))
mt = "\n".join(rows) + "\n\n%d of %d (change, check) pairs caught.\n" % (det, tot)
rows = ["| id | property | change written by the sub-agent | needs, to manifest | caught by (first violation key) |", "|---|---|---|---|---|"]
for meta in sorted(glob.glob(os.path.join(V, "seeded/*/meta.json"))):
    sid = os.path.basename(os.path.dirname(meta)); d = json.load(open(meta))
    r = res.get("seeded/" + sid, {})
    cells = []
    for c in d.get("checks", [d["property"]]):
        v = r.get("checks", {}).get(c)
        cells.append("%s: %s" % (c, "not run" if v is None else ("caught (`%s`)" % short(v.get("first_key"), 80) if v["detected"] else "MISSED")))
    note = SEED_NOTES.get(sid, (d.get("change", "see README.md"), d.get("needs", "see README.md")))
    rows.append("| %s | %s | %s | %s | %s |" % (sid, d["property"], note[0], note[1], "<br>".join(cells)))
waves = sorted({os.path.basename(os.path.dirname(m))[-1] for m in glob.glob(os.path.join(V, "seeded/*/meta.json"))})
nseed = len(glob.glob(os.path.join(V, "seeded/*/meta.json")))
fp_rows = []
for meta in sorted(glob.glob(os.path.join(V, "seeded/*/meta.json"))):
    d = json.load(open(meta)); sid = os.path.basename(os.path.dirname(meta))
    if d.get("first_pass", "caught") != "caught":
        fp_rows.append("* `%s`: %s" % (sid, d["first_pass"]))
st = ("%d changes in %d waves (`_a`, `_b`, ...), one per property and wave, were written by fresh sub-agents that were given only the property text and a scratch\n"
      "worktree (nothing from /verif; from the second wave on also one line saying what earlier attempts had changed, so that they would do something else). Each was confirmed\n"
      "with `run/confirm_seed.py` in a separate scratch worktree (repository's own autotools build; demonstration exits 0 before and non-zero after `git apply patch.diff`;\n"
      "`make test` still passes: 132 \"ok\" lines) and is kept as `seeded/<id>/` (patch.diff, demo.c, README.md, meta.json). None is applied to /repo.\n\n" % (nseed, len(waves)) + "\n".join(rows) + "\n\n"
      "First pass of wave `_a`: 18 of 20 caught by the checks as they stood. `C16_a` (leak only on the P-xor-Q branch of the three-data XOR decoder) was\n"
      "missed by the random histories of C16; the check gained a systematic sweep of every erasure set within tolerance of all 38 tables under the\n"
      "ledger/LSan and now catches it. `C15_a` (in-place XOR into a caller's parity on the same rare branch) was caught only through one lucky random\n"
      "erasure set; C15 gained the exhaustive XOR sweep on write-protected, end-pinned, aligned fragments and now catches it on every table that has such triples.\n\n"
      "Later waves - changes that the checks missed (or caught only by luck) when first run, and what was strengthened:\n\n" + "\n".join(fp_rows) + "\n")
p = os.path.join(V, "DESIGN.md"); s = open(p).read()
a = s.index("### 10.1 Results"); b = s.index("### 10.2 Independently seeded changes"); c = s.index("---------------------------------------------------------------------------\n\n## 11.")
s = s[:a] + "### 10.1 Results\n\n" + mt + "\n" + "### 10.2 Independently seeded changes\n\n" + st + "\n" + s[c:]
open(p, "w").write(s)
print("filled:", det, "/", tot)
