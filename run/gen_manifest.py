#!/usr/bin/env python3
"""Generate MANIFEST.json from run/props.py (single source of truth for the checks)."""
import os, sys, json, subprocess
HERE = os.path.dirname(os.path.abspath(__file__))
VERIF = os.path.dirname(HERE)
sys.path.insert(0, HERE)
from props import PROPS

LEVEL_TEXT = {
 "C01": "Exploration: the real decode is run on tens of thousands of (config, length, data, erasure set, presentation) cases under ASan+UBSan and compared byte-for-byte with the original; erasure sets are exhaustive for every flat-XOR table and every RS shape with small C(n,<=t). Right level because the property is a universally quantified input/output relation with a cheap exact oracle. Presentations vary order, duplicates (up to 120 pointers), alignment, read-only mappings, fragments stamped by older writer versions, a small-stack caller thread, eight values of the forced-check flag, a twin instance created under the other legacy-CRC setting, all three checksum types, explicit word sizes and the stand-in libshss (backend metadata); odd shards run beside a noise thread.",
 "C02": "Exploration with exhaustive sub-spaces: all 2^n fragment subsets for small codes plus the flat-XOR band hd<=|E|<=m, each also with duplicates and several destinations; oracle 'exact or error', crash isolation per case.",
 "C03": "Exploration: every destination (erased and available) for exhaustive/sampled erasure sets, byte comparison of all fragment_len bytes with the fragment kept from encode, out-of-range destinations must be refused. A supplied destination is also presented in three variants that differ from what the instance itself would write (payload byte, historical seal, checksum type) and must come back as supplied.",
 "C04": "Exploration, exhaustive over the 496 generators: every entry against the closed form over table-free GF(2^16), every k-subset of rows for small n by the monitor's own elimination, parity bytes of the public encode against the model on three compilers/flavours. Payload sizes sweep every residue class of the region loops (2..34 bytes, neighbourhoods of 64/128/1024, > 64 KiB); data kinds include edge-value words.",
 "C05": "Exploration, exhaustive over tables x erasure sets: 38 live tables against a frozen validated golden copy, every |E|<hd decoded and reconstructed, SSE2 and portable builds, refusal of every unsupported (k,m,hd) in the box.",
 "C06": "Exploration: exhaustive (R,X) for all XOR tables and small RS shapes, sampled above; rank-based sufficiency oracle plus follow-up reconstruct restricted to the answer; output array guarded.",
 "C07": "Exploration: every byte of every emitted fragment against an independently written serializer (literal offsets, bitwise CRCs, model parity) across checksum types, legacy switch values and three build flavours; struct layout facts checked at run time. All three defined checksum types, explicit word sizes for every backend, the stand-in libshss with 32 bytes of backend metadata.",
 "C08": "Exploration: dense and windowed length sweeps, each length actually encoded so the queries are compared with what encode produces.",
 "C09": "Exploration: systematic header mutation (640 bit flips exhaustive per header, byte values, rewrites with/without re-sealing) against a raw-byte reference predicate, observed through all consuming APIs. Structured forgeries (byte-reversed / half / shifted checksums, partially swapped headers, version-gate edges) are enumerated deterministically.",
 "C10": "Exploration: bitwise CRC models against stored checksums of encoded and reconstructed fragments, exhaustive single-bit payload flips for short payloads, legacy function on random buffers, all switch values. Includes headers whose stored mismatch flag is already set and the backend with backend metadata (checksum covers the payload only).",
 "C11": "Exploration: native fragment vs field-swapped twin (twin builder has a KAT: golden LE header <-> golden BE header) compared field by field, with and without corruption. Writer versions on both sides of the 1.2.0 gate, 64-bit edge values of the original length, and the native answer against the header bytes.",
 "C12": "Exploration: cross product instances x foreign fragments x re-sealed single-field edits against the literal reference verdict for both validators. Writer versions x byte order, and validation while the reader's legacy-CRC write switch is set.",
 "C13": "Exploration: table-driven invalid-argument cases for every entry point, one process-isolated case each, with pre-poisoned outputs and a conservation ledger; the (k,m) shape box is enumerated completely per backend. The converse clause is exercised with 1..200 fragment pointers and five values of the forced-check flag on accepted instances.",
 "C14": "Exploration (bounded-exhaustive histories + random): history monitor against a set model, registry walked through the exported list, counter wrap forced via the exported counter, also on clang -O2. Plus fault enumeration of create (every allocation site fails once) with one or two live siblings of the same backend.",
 "C15": "Exploration: page-protection monitor (inputs read-only, abutting PROT_NONE pages) over all consuming APIs plus output comparison across histories, live instances and threads. Includes fragments stamped by older writer versions on the read-only pages.",
 "C16": "Exploration: random API histories under ASan+LSan and under the conservation ledger (library-allocated live blocks / dlopen balance return to baseline). Plus allocation-failure enumeration: every allocation site of create/encode/18 decode-reconstruct variants (incl. the flat-XOR P-xor-Q branch between decodes of a smaller stripe)/fragments_needed/validation fails once (forked child per site), foreign fragments between live instances, misaligned inputs.",
 "C17": "Fault enumeration: every call position of every backend operation in a scripted workload is made to fail once at the plugin boundary; rc, ledger delta, registry and the next identical call are checked. 16 configurations (m > k, k = 1, k = m, k+m = 32, backend metadata), the backends' own init failures after instance churn, and every position of the reference libisal's matrix-inversion failpoint.",
 "C18": "Exploration: ThreadSanitizer on stress workloads plus directed pairwise interleavings at 19 yield points (tsan and asan builds), per-thread sequential oracles. Cannot enumerate all interleavings; reports 'held on N rounds / M distinct interleavings'. Threads work on different stripe variants (content and length), are steered to the flat-XOR P-xor-Q triples, share input buffers, ask for multi-element fragments_needed lists and compare native/twin metadata.",
 "C19": "Exploration + fault positions: the codec monitors on both ISA-L adapters running on a clean-room libisal, success required iff the first k surviving rows are invertible; every injected inversion failure position.",
 "C20": "Exploration: survivor sets x damaged subsets x damage kinds under force_metadata_checks with the 'original iff valid fragments within tolerance, never other bytes' oracle. Damaged duplicate copies of valid indexes, eight values of the flag, a reader instance created with another checksum type.",
}
TECH = {
 "C01": "reference-model monitor (round-trip comparator) under ASan/UBSan",
 "C02": "exact-or-error comparator + crash capture under ASan/UBSan",
 "C03": "fragment byte comparator under ASan/UBSan",
 "C04": "generator/parity comparator vs closed-form GF(2^16) model, 3 build flavours",
 "C05": "golden-table, parity and decode comparators; SSE2 and portable builds under ASan/UBSan",
 "C06": "index-list checker with GF rank oracle + follow-up reconstruct, guarded output array",
 "C07": "byte-for-byte comparison with independent serializer, 3 build flavours",
 "C08": "size-query comparator vs arithmetic model and actual encode",
 "C09": "mutation + raw-byte reference predicate, before/after digests",
 "C10": "bitwise CRC-32 models vs stored checksums / mismatch verdicts",
 "C11": "native-vs-twin metadata comparator",
 "C12": "validator verdict comparator vs literal reference",
 "C13": "invalid-argument table under ASan/UBSan + malloc/dlopen conservation ledger",
 "C14": "history + set-model monitor, registry walk, counter preset, gcc+clang; allocation-failure enumeration of create with live siblings",
 "C15": "page-protection monitor (read-only inputs, guard pages) + cross-history output comparison; ASan and valgrind memcheck underneath",
 "C16": "random histories under ASan+LeakSanitizer, valgrind memcheck and conservation ledger + allocation-failure enumeration (malloc failpoint, forked cases)",
 "C17": "failing-stub injection at the plugin boundary, natural init failures, libisal inversion failpoint: every call position",
 "C18": "ThreadSanitizer stress (per-thread stripe variants, shared inputs) + directed interleavings via guarded yield hooks",
 "C19": "codec monitors on ISA-L adapters over clean-room libisal + inversion failpoint",
 "C20": "forced-check comparator (damaged subsets) under ASan/UBSan",
}

def main():
    try:
        hook_commits = subprocess.check_output(["git", "-C", "/repo", "log", "--format=%H", "--grep", "^verif hooks"], text=True).split()
    except Exception:
        hook_commits = []
    checks = []
    for pid in sorted(PROPS):
        sp = PROPS[pid]
        checks.append({
            "property_id": pid,
            "quick_cmd": "python3 run/check.py %s --tier quick" % pid,
            "thorough_cmd": "python3 run/check.py %s --tier thorough" % pid,
            "evidence_file": "/verif/evidence/%s.json" % pid,
            "replay_cmd_template": "python3 run/check.py replay {path}",
            "engine": "runtime-monitors",
            "level_claimed": {"category": sp["level"], "text": LEVEL_TEXT[pid], "design_ref": "DESIGN.md section 5 (%s)" % pid},
            "level_note": "Trusted base: gcc/clang sanitizer runtimes, the reference models in ref/ (validated against Python KATs, zlib and two in-the-wild headers by setup_cmd), the clean-room libisal for ISA-L properties and the stand-in libshss (backend with per-fragment metadata). Holds only for the executions produced; bounds are in the evidence file.",
            "technique": TECH[pid],
        })
    man = {
        "version": 1,
        "setup_cmd": "python3 run/setup.py",
        "hooks": {
            "guard": "LIBERASURECODE_VERIF",
            "enable": "every check compiles /repo's tracked sources itself (run/build.py) with -DLIBERASURECODE_VERIF; only C18 uses the yield hooks",
            "baseline_off_cmd": "cd /repo && make -j8 && make test",
            "source_commits": hook_commits,
            "add_only": True,
        },
        "engines": [{"name": "runtime-monitors", "path": "run/check.py", "serves_properties": sorted(PROPS),
                     "kind_free_text": "sanitizer builds of the real library + C drivers with reference-model, history, conservation, page-protection and interleaving monitors; Python orchestrator (sharding, crash isolation, known findings, evidence)"}],
        "checks": checks,
        "notes": "All 20 properties are claimed and decided by runtime monitoring. Genuine defects found on the original tree were repaired by 'fix:' commits in /repo and are listed as fixed in known_findings.json; see DESIGN.md section 9.",
        "not_applicable": [],
    }
    json.dump(man, open(os.path.join(VERIF, "MANIFEST.json"), "w"), indent=1)
    try:
        import jsonschema
        jsonschema.validate(man, json.load(open("/root/.vp/MANIFEST.schema.json")))
        print("MANIFEST.json valid,", len(checks), "checks")
    except ImportError:
        print("MANIFEST.json written (jsonschema not available)")

if __name__ == "__main__":
    main()
