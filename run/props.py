"""Per-property run specifications used by check.py."""
import os

COMMON = ["harness/mon.c", "harness/lec.c", "ref/ref.c"]
DRIVER_SOURCES = {
    "drv_codec": {"src": ["harness/drv_codec.c"] + COMMON},
    "drv_format": {"src": ["harness/drv_format.c"] + COMMON},
    "drv_pure": {"src": ["harness/drv_pure.c"] + COMMON},
    "drv_conc": {"src": ["harness/drv_conc.c"] + COMMON},
    "drv_api": {"src": ["harness/drv_api.c", "harness/ledger.c"] + COMMON},
    "drv_api_ledger": {"src": ["harness/drv_api.c", "harness/ledger.c"] + COMMON, "cflags": ["-DLEDGER"]},
}

# valgrind memcheck over the quick-size workload of a plain build (thorough tier only): uninitialised-value use and invalid
# accesses that neither ASan's red zones nor the byte-exact oracles see.  The first error ends the process (the case is
# recorded as violated and the shard restarts behind it).
MEMCHECK = ["valgrind", "-q", "--error-exitcode=66", "--exit-on-first-error=yes", "--leak-check=no", "--undef-value-errors=yes",
            "--partial-loads-ok=yes", "--max-stackframe=8000000", "--num-callers=12",
            "--suppressions=" + os.path.join(os.path.dirname(os.path.abspath(__file__)), "memcheck.supp")]

NOISE_NOTE = ("; odd-numbered shards run with a noise thread: a second thread that keeps decoding / reconstructing / querying through the "
              "instance and stripe under test and through its own instances of several backends, so that the oracles also see results that depend on what other threads do")
TRUST = ["compiler sanitizers (ASan/UBSan) observe only executed paths",
         "external plugins (libisal, libJerasure, libshss, libphazr) are verif-owned clean-room stand-ins: what is observed is liberasurecode's adapters and front end, not those products",
         "reference models in ref/ are validated against Python-generated KATs and in-the-wild golden headers (ref/selftest.c)"]


def codec(prop, level, rule, flavours=("asan",), modes=(None,), **kw):
    runs = []
    for fl in flavours:
        for mo in modes:
            r = {"name": "%s%s" % (fl, "-" + mo if mo else ""), "flavour": fl, "driver": "drv_codec", "args": [], "noise": True}
            if mo:
                r["args"] += ["--mode", mo]
            runs.append(r)
    d = {"level": level, "runs": runs, "rule": rule + NOISE_NOTE, "assumptions": TRUST}
    d.update(kw)
    return d


def fmt(prop, rule, flavours=("asan",), **kw):
    d = {"level": "exploration", "rule": rule + NOISE_NOTE, "assumptions": TRUST,
         "runs": [{"name": fl, "flavour": fl, "driver": "drv_format", "args": [], "noise": True} for fl in flavours]}
    d.update(kw)
    return d


def api(prop, level, rule, **kw):
    d = {"level": level, "rule": rule, "assumptions": TRUST + ["resource ledger classifies allocations by the return address of the malloc-family call (library objects vs harness)"],
         "runs": [{"name": "asan", "flavour": "asan", "driver": "drv_api", "args": [], "leaks": True},
                  {"name": "plain-ledger", "flavour": "plain", "driver": "drv_api_ledger", "args": []}]}
    d.update(kw)
    return d


PROPS = {
    "C18": {"level": "exploration", "assumptions": TRUST + ["ThreadSanitizer reports only races on executions that happened; directed pauses use relaxed atomics + sched_yield (no happens-before edge added)"],
            "rule": "ThreadSanitizer build of the real library under (a) 2..16 threads sharing one descriptor (encode/decode/reconstruct/queries/validation), (b) per-thread create-use-destroy loops over mixed backends incl. first-ever RS creates (GF tables are rebuilt whenever the last RS instance died), (c) both; "
                    "plus directed interleavings: for operation pairs over {create rs/xor, destroy rs/xor, encode, decode, size query, create-use-destroy} and every pair (p,q) of the 19 guarded yield points both operations reach, thread A pauses at p until thread B has passed q (time-out = infeasible ordering, not a verdict), run on the tsan and asan flavours; "
                    "oracles: every thread's results equal the sequential reference stripe, descriptors unique among live ones, any TSan report is a violation; non-trivial = every stress round and directed run; distinct = (workload, threads, round, shard) or (opA, opB, p, q); coverage also lists the number of distinct hook-event interleavings observed",
            "distinct_class": "nontrivial",
            "runs": [{"name": "tsan-shared", "flavour": "tsan", "driver": "drv_conc", "args": ["--mode", "shared"], "shards": 6, "timeout": {"quick": 150, "thorough": 1800}, "stop_after_crashes": 3},
                     {"name": "tsan-own", "flavour": "tsan", "driver": "drv_conc", "args": ["--mode", "own"], "shards": 10, "timeout": {"quick": 150, "thorough": 1800}, "stop_after_crashes": 3},
                     {"name": "tsan-mixed", "flavour": "tsan", "driver": "drv_conc", "args": ["--mode", "mixed"], "shards": 8, "timeout": {"quick": 150, "thorough": 1800}, "stop_after_crashes": 3},
                     {"name": "tsan-directed", "flavour": "tsan", "driver": "drv_conc", "args": ["--mode", "directed"], "shards": 16, "timeout": {"quick": 150, "thorough": 1800}, "stop_after_crashes": 3},
                     {"name": "asan-directed", "flavour": "asan", "driver": "drv_conc", "args": ["--mode", "directed"], "shards": 8, "timeout": {"quick": 150, "thorough": 1800}, "stop_after_crashes": 3},
                     {"name": "asan-own", "flavour": "asan", "driver": "drv_conc", "args": ["--mode", "own"], "shards": 4, "timeout": {"quick": 150, "thorough": 1800}, "stop_after_crashes": 3},
                     {"name": "asan-probe", "flavour": "asan", "driver": "drv_conc", "args": ["--mode", "probe"], "shards": 4, "timeout": {"quick": 150, "thorough": 1800}, "stop_after_crashes": 3}]},
    "C15": {"level": "exploration", "assumptions": TRUST + ["page protection detects stray writes anywhere in an input and reads outside it only up to the adjacent guard page"],
            "rule": "case = (config, length): data and every input fragment / index list placed in its own mapping, read-only during the call, end-pinned or start-pinned against a PROT_NONE page (or 16-aligned with <=15 bytes slack); "
                    "encode, decode (with data loss, shuffled, duplicates), reconstruct (erased and available destination), get_fragment_metadata, is_invalid_fragment, verify_stripe_metadata, fragments_needed all run that way; encode output must equal the reference serializer and the first encode "
                    "after random unrelated API histories, with other instances alive, and on 8 concurrent threads; additionally every erasure set |E|<hd of all 38 flat-XOR tables is decoded and reconstructed from write-protected end-pinned fragments (one aligned and one unaligned payload size); a SIGSEGV in a guarded region, a changed input or a differing output is a violation; non-trivial = every (erasure set, placement) and every re-encode; distinct = (config, length, erasure set, placement | history); "
                    "plus encode with each of its allocations failing once (plain build, ledger failpoint, forked child per site), its output variables NULL or still holding an earlier stripe of the caller: what the failing call does to the caller's memory does not depend on what the variables held, and the next encode gives the same bytes",
            "runs": [{"name": "plain-guard", "flavour": "plain", "driver": "drv_pure", "args": []},
                     {"name": "asan-guard", "flavour": "asan", "driver": "drv_pure", "args": []},
                     {"name": "asan-nosse-guard", "flavour": "asan-nosse", "driver": "drv_pure", "args": [], "shards": 8},
                     {"name": "threads", "flavour": "asan", "driver": "drv_pure", "args": ["--mode", "threads"], "shards": 4},
                     {"name": "plain-oom-encode", "flavour": "plain", "driver": "drv_api_ledger", "args": ["--mode", "oomenc"]},
                     {"name": "plain-memcheck", "flavour": "plain", "driver": "drv_pure", "args": [], "wrapper": MEMCHECK, "driver_tier": "quick", "timeout": {"quick": 1800, "thorough": 7200}}]},
    "C14": api("C14", "exploration",
               "history + executable model: all canonical action sequences over <=4 slots with alphabet {create rs(4,2), rs(3,3), xor(5,5,3), null, rs(3,0), failed-create, destroy(dead), destroy(slot), use(slot)} up to depth 4 (quick) / 6 (thorough), each with and without a descriptor-counter preset (counter jumps to INT_MAX-1 after the second create so that the wrap lands on live descriptors); "
               "random histories of length 10..200 with counter presets {none, jump after 2nd/3rd create, INT_MAX-1 from the start, -5}; all 24 destruction orders of four RS instances; after every step: registry length == |model|, descriptor positive and unique, APIs on dead descriptors fail, used instance round-trips (decode with data loss + re-encode equals kept stripe); "
               "plus, with one or two instances of the same backend alive, a create in which every allocation site fails once (ledger failpoint, forked child per site): the failed create leaves the registry as it was, the siblings keep round-tripping, a following create works, the siblings can be destroyed in either order; "
               "non-trivial = every history / injected create; distinct = (action sequence, preset) or (config, siblings, allocation site)",
               exhaustive={"quick": True, "thorough": True},
               exhaustive_scope="all canonical sequences up to depth 4 (quick) / 6 (thorough) over the stated alphabet; longer histories are random",
               extra_runs=[{"name": "clang-O2", "flavour": "clang", "driver": "drv_api_ledger", "args": []},
                           {"name": "plain-oomcreate", "flavour": "plain", "driver": "drv_api_ledger", "args": ["--mode", "oomcreate"]}]),
    "C16": api("C16", "exploration",
               "case = one random API history (20..300 steps, 4 slots, all available backends) mixing create/destroy/encode/decode (ok, too few, unrecoverable, duplicates, bad header, re-sealed edits)/reconstruct (ok, too few, bad destination)/fragments_needed/metadata/validation/invalid arguments/unsupported shapes, each step followed by its cleanup call; "
               "monitors: ASan (double free, use-after-free, overflow), LeakSanitizer recoverable check every 16 histories and at exit, conservation ledger (library-allocated live blocks and dlopen balance back to the pre-step value after every self-contained step and to the baseline at the end of each history); "
               "plus a systematic part: every erasure set within tolerance of all 38 flat-XOR tables (exhaustive; covers each failure-pattern branch) and of RS/ISA-L shapes, decode+cleanup and reconstruct of every erased index with ledger delta 0 per case; "
               "non-trivial = every history / erasure set; distinct = history index/seed or (config, erasure set)",
               extra_runs=[{"name": "plain-oom", "flavour": "plain", "driver": "drv_api_ledger", "args": ["--mode", "oom"]}],
               require_stats=["rc_decode_0", "rc_decode_EINSUFFFRAGS", "rc_decode_EBADHEADER", "rc_reconstruct_0", "rc_reconstruct_EINSUFFFRAGS", "rc_reconstruct_EINVALIDPARAMS",
                              "rc_create_EBACKENDINITERR", "rc_create_EINVALIDPARAMS", "rc_create_EBACKENDNOTSUPP", "rc_encode_0", "rc_invalid_arg_call_EINVALIDPARAMS"]),
    "C17": api("C17", "fault_enumeration",
               "fault injection at the plugin boundary (operation table of the backend descriptor swapped for counting stubs around create): for each backend and each of init/encode/decode/reconstruct/fragments_needed, EVERY call position of that operation in a scripted workload (create, 3 encodes, 6 decodes with data loss, 5 reconstructs, 4 fragments_needed, destroy) fails once, plus shuffled scripts with random fault positions; "
               "oracle: public rc<0, ledger delta 0 right after the failing call (heap and dlopen), registry unchanged for init, the next identical call succeeds byte-exactly, ledger back to baseline after destroy; ASan+LSan underneath; "
               "plus: the backends' own init refusals after instance churn, every position of the reference libisal's matrix-inversion failpoint, the flat-XOR decoder's own failures (band hd..hd+1 of six tables), and an init that fails because ANY of its allocations fails (every allocation site of create, one or two siblings of the same backend alive, siblings used and destroyed afterwards); "
               "non-trivial = every fault position; distinct = (config, operation, position)",
               exhaustive={"quick": True, "thorough": True},
               exhaustive_scope="every call position of every backend operation in the scripted workload, for 16 configurations (incl. m > k, k = 1, k = m, k+m = 32, backend metadata); every allocation site of create with live siblings",
               extra_runs=[{"name": "plain-oomcreate", "flavour": "plain", "driver": "drv_api_ledger", "args": ["--mode", "oomcreate"]}]),
    "C13": api("C13", "exploration",
               "case = one public call with an invalid argument (every entry point x dead/unknown descriptors {0,-1,INT_MAX,INT_MIN,never issued,destroyed} x NULL-argument subsets x counts {-1,0,INT_MIN} x fragment_len {0,1,79} x out-of-range destinations x bad backend ids), "
               "or one shape of the box backend x k,m in -1..33 x hd 0..7 x w (create refused, or full encode/decode/reconstruct/query/destroy cycle without faults); output pointers pre-poisoned; "
               "oracle = rc<0 (validator: invalid), conservation ledger delta 0, no sanitizer report; non-trivial = every case; distinct = (config, api, argument variant) or shape",
               exhaustive={"quick": True, "thorough": True},
               exhaustive_scope="the (k,m) box -1..33 x -1..33 for every backend (hd 0..7 for flat-XOR); w sampled in quick, all 10 values in thorough"),
    "C07": fmt("C07", "case = one encode (config, checksum type, legacy-CRC switch value, length, data kind); every byte of every fragment compared with the independent serializer (header at literal offsets, bitwise CRCs, model parity); "
               "sizeof/offsetof of the public header struct reported as runtime facts; non-trivial = every encode; distinct = (config, switch, length, data kind)",
               flavours=("asan", "plain", "clang")),
    "C08": fmt("C08", "case = block of lengths for one config: the three size queries vs the arithmetic model and vs what encode(len) actually produces (fragment_len, header size/orig fields); all lengths 0..4A+1, windows around multiples of A up to 64 KiB, powers of two +-1 up to 2^20; "
               "dead/unknown descriptors must answer negative; an anchor instance stays alive across the whole sweep (100+ other instances created and destroyed) and is re-queried after every configuration; non-trivial = every length; distinct = (config, length)"),
    "C09": fmt("C09", "mutated copies of headers encode produced: all 640 single-bit flips, every byte set to 3 seeded values, multi-byte edits, version/magic/endianness rewrites with and without re-sealing with either CRC variant, half-correct CRCs, padding edits; "
               "oracle = raw-byte acceptance predicate; observed through get_fragment_metadata, is_invalid_fragment_header, decode and reconstruct (-EBADHEADER for rejected or opposite-endian headers), before/after byte comparison; "
               "mutants the reference accepts that enlarge size fields are discarded (forged input); a header refused late by decode (valid by the equation, logical size >= 2^31) after an earlier slot was replaced must leave every fragment of the stripe untouched and valid; non-trivial = every mutant; distinct = mutated header bytes per config",
               exhaustive_scope="the 640 single-bit flips of each examined header are exhaustive; other mutation classes are sampled"),
    "C10": fmt("C10", "stored payload checksum of every encoded and reconstructed fragment vs bitwise CRC-32 (standard / historical per LIBERASURECODE_WRITE_LEGACY_CRC in {unset,'','0','1','yes'}); chksum_mismatch and is_invalid_fragment under every single-bit payload flip (payload<=256B), bursts, byte edits, forged stored values; "
               "cross-switch validation; liberasurecode_crc32_alt vs bitwise historical model on random buffers; non-trivial = corrupted payload or legacy buffer block; distinct = corrupted fragment bytes"),
    "C11": fmt("C11", "for every fragment f and its field-swapped twin f' (offset-table twin builder, KAT: LE golden header <-> BE golden header): get_fragment_metadata rc and all logical fields equal, header verdict equal, payload corruption detected equally; variants pristine / payload bit / re-sealed field edits / stale seal; "
               "non-trivial = every twin pair; distinct = (config, length, fragment, variant)"),
    "C12": fmt("C12", "instances I x fragments from instances J x single-field edits re-sealed with a correct metadata CRC (idx in {0,n-1,n,n+1,2^31,2^32-1,...}, backend id 0..255, backend/library version +-1, mismatch flag, payload bit, stale seal, twin, random magic); "
               "is_invalid_fragment and verify_stripe_metadata vs the literal reference verdict; just-encoded and just-reconstructed fragments must validate; non-trivial = every edited header; distinct = header bytes per instance"),
    "C01": codec("C01", "exploration",
                 "case = one liberasurecode_decode call on (config, length, data kind, erasure set within tolerance, presentation of survivors, force flag); "
                 "oracle = original bytes; non-trivial = at least one DATA fragment erased (backend decode really runs); distinct = (config, erasure set, presentation, force, length class)",
                 flavours=("asan", "asan-nosse")),
    "C02": codec("C02", "exploration",
                 "case = decode or reconstruct on an arbitrary sub-multiset of one stripe (all 2^n subsets for n<=10 quick / 15 thorough, the band tolerance<|E|<=m+1 and random subsets above); "
                 "oracle = rc<0 or byte-exact original; crash/sanitizer report = violation; non-trivial = erasures beyond tolerance or duplicated fragments; distinct = (config, present mask, presentation/destination)",
                 flavours=("asan", "plain"),
                 exhaustive={"quick": False, "thorough": False},
                 exhaustive_scope="all 2^n subsets for every configuration with n<=10 (quick) / n<=15 (thorough); see counter configs_with_all_2^n_subsets"),
    "C03": codec("C03", "exploration",
                 "case = reconstruct_fragment(survivors of erasure set within tolerance, destination d) for every d in 0..n-1 plus out-of-range destinations; "
                 "oracle = fragment kept from encode (all fragment_len bytes) / rc<0 for bad d; non-trivial = destination among the erased ones or out of range; distinct = (config, erasure set, destination); "
                 "plus reconstruct under allocation failure (plain build, ledger failpoint, forked child per allocation site of the call, flat-XOR P-xor-Q triples included): success means the kept fragment, anything else a negative code, and the next identical call is exact",
                 extra_runs=[{"name": "plain-oom-reconstruct", "flavour": "plain", "driver": "drv_api_ledger", "args": ["--mode", "oomrec"]}]),
    "C04": codec("C04", "exploration",
                 "all 496 generators entry by entry vs closed form L_j(r)/L_j(k) over shift-and-xor GF(2^16); every k-subset of rows for n<=12/16 by the monitor's own elimination; "
                 "each generator asked for three times (another shape in between) and compared; parity payloads from the public encode vs model parity, also through a second instance of the same configuration; parity rebuilt with data lost vs model; non-trivial = every shape / stripe; distinct = (k,m) or (config,length)",
                 flavours=("asan", "plain", "clang"),
                 exhaustive={"quick": True, "thorough": True},
                 exhaustive_scope="all 496 (k,m) generators, every entry; all C(n,k) row subsets for n<=12 (quick) / n<=16 (thorough)"),
    "C05": codec("C05", "exploration",
                 "38 live tables vs golden copy (+transpose), parity == XOR of golden equation, every erasure set |E|<hd decoded and reconstructed at every erased destination for payload residues mod 16 in {0,4,8,12}, "
                 "refusal of unsupported (k,m,hd); non-trivial = any erasure set / unsupported shape; distinct = (table, erasure set, residue class | destination)",
                 flavours=("asan", "asan-nosse"), modes=("x",),
                 exhaustive={"quick": True, "thorough": True},
                 exhaustive_scope="38 tables x all erasure sets with |E|<hd (decode and reconstruct); payload sizes and data are sampled"),
    "C06": codec("C06", "exploration",
                 "case = fragments_needed(R, X) for disjoint R!=empty, X with |R|+|X| within tolerance, three list orders; output array ends at a guard page; "
                 "oracle = terminator, range, distinctness, disjointness, GF rank span, |N|=k for RS, follow-up reconstruct from exactly N; queries that name a fragment more than once (at most k+m entries) are judged only by error-or-correct-list; non-trivial = every query; distinct = (config, R, X, order)",
                 exhaustive_scope="all (R,X) for every XOR table and RS shapes where the count fits the cap (counter configs_exhaustive_RX)"),
    "C19": codec("C19", "exploration",
                 "C01/C02/C03/C06 monitors on isa_l_rs_vand and isa_l_rs_cauchy running on the clean-room libisal.so.2, success required iff the first k surviving rows are invertible over GF(2^8) (monitor's elimination); "
                 "fragments_needed queries naming a fragment more than once must be answered when the distinct set is within tolerance; plus every position of an injected gf_invert_matrix failure in a scripted workload; non-trivial/distinct as in the respective monitor",
                 modes=("roundtrip", "nosilent", "reconstruct", "needed", "faults"),
                 extra_runs=[{"name": "asan-roundtrip-libvariant1", "flavour": "asan", "driver": "drv_codec", "args": ["--mode", "roundtrip"], "env": {"ISAL_REF_VARIANT": "1"}, "shards": 8},
                             {"name": "asan-reconstruct-libvariant2", "flavour": "asan", "driver": "drv_codec", "args": ["--mode", "reconstruct"], "env": {"ISAL_REF_VARIANT": "2"}, "shards": 8},
                             {"name": "asan-faults-libvariant1", "flavour": "asan", "driver": "drv_codec", "args": ["--mode", "faults"], "env": {"ISAL_REF_VARIANT": "1"}, "shards": 4}]),
    "C20": codec("C20", "exploration",
                 "case = decode(force_metadata_checks=1) on survivors S with damaged subset B (payload bit flip under CRC32, or re-sealed header edit: idx out of range, backend id, backend version, newer library version); "
                 "in half of the cases the presented fragments are validated while intact and damaged in place afterwards; oracle = original bytes required iff S minus B within tolerance, otherwise error or exact original; never other bytes; non-trivial = B non-empty; distinct = (config, S, B, first damage kind)"),
}

# thorough tier: number of seeds the whole workload is repeated under (see check.py)
# memcheck pass (see MEMCHECK above): thorough tier of the codec / format / API checks, both tiers of C15 (above) and C16
MEMCHECK_NOTE = ("; plus a valgrind-memcheck pass of a plain build over the quick-size workload (uninitialised-value use, invalid accesses and "
                 "frees that red zones and byte-exact oracles do not see; the first report ends the case as a violation)")
for _p, _drv, _tiers in (("C01", "drv_codec", ("thorough",)), ("C02", "drv_codec", ("thorough",)), ("C03", "drv_codec", ("thorough",)), ("C06", "drv_codec", ("thorough",)),
                         ("C20", "drv_codec", ("thorough",)), ("C07", "drv_format", ("thorough",)), ("C09", "drv_format", ("thorough",)), ("C10", "drv_format", ("thorough",)),
                         ("C11", "drv_format", ("thorough",)), ("C12", "drv_format", ("thorough",)), ("C13", "drv_api", ("thorough",)), ("C16", "drv_api", ("quick", "thorough"))):
    PROPS[_p].setdefault("extra_runs", [])
    PROPS[_p]["extra_runs"] = list(PROPS[_p]["extra_runs"]) + [{"name": "plain-memcheck", "flavour": "plain", "driver": _drv, "args": [], "wrapper": MEMCHECK, "driver_tier": "quick",
                                                                "tiers": _tiers, "timeout": {"quick": 1800, "thorough": 7200}}]
    PROPS[_p]["rule"] += MEMCHECK_NOTE
PROPS["C15"]["rule"] += MEMCHECK_NOTE

for _p, _n in {"C05": 3, "C07": 8, "C08": 3, "C09": 10, "C10": 10, "C11": 12, "C12": 12, "C13": 6, "C15": 5, "C16": 3, "C17": 10, "C18": 8, "C20": 16, "C02": 2}.items():
    PROPS[_p]["thorough_seeds"] = _n

# workload parts added by the seeded waves l and m (DESIGN 4.2); appended to the rule texts so that MANIFEST and evidence name them
_POP = ("; instance populations: every history of 5 (thorough 6) creates (twins included) / destroys (oldest, newest, middle) over a small pool of shapes, then random "
        "ones of 28-48 steps, every live instance used after every step (encode vs model, decodes, reconstructs, payload damage queried)")
_ADDED = {
    "C01": _POP + "; the first instances of a backend created on three threads at once (barrier), each used and one's stripe read through another",
    "C02": "; lists with one index supplied 255/256/257/512/65536 times; a stripe of eleven words per fragment in every configuration",
    "C03": "",
    "C06": "; follow-up reconstructs from exactly the returned set: required to succeed within tolerance and, for flat-XOR, whenever a requested parity has its whole equation in the set (and the set holds at least k fragments)",
    "C04": _POP + " (pool with an m = 0 shape); the first rs_vand instances of the process created on three threads at once and compared with the closed form",
    "C05": "; payloads of 64 KiB and 128 KiB (thorough 256 KiB, 1 MiB) on every table: parity rebuilt while a data fragment of its equation is lost",
    "C07": "; one fragment per encode rebuilt from the rest into a recycled 16-aligned buffer and compared with the serializer",
    "C08": "; queries (no encode) at 2^21..2^30 +-1, random lengths in [2^29, 2^31-A) and the largest length whose answer fits the returned int; libphazr shapes with word sizes 17 / 20 / 30 / 36 (not a whole number of bytes)",
    "C09": "; every third mutant is also queried with the fragment's own header as output struct: same verdict, a refused query leaves every byte alone; lists mixing headers sealed with the standard and the historical CRC are decoded (also forced) and reconstructed exactly",
    "C10": _POP + " (mixed checksum types); every judged fragment is also validated through an instance of the same shape created with the other checksum type",
    "C11": "; twin pairs under writer stamps 0.9.3..1.1.255 with size fields 2^27..2^32-1",
    "C12": "; reconstruct with the destination supplied as well, output buffer pre-filled; four threads writing through one instance (each its own object length), every fragment validated by the thread that was handed it",
    "C14": _POP + " (mixed backends); 300 live rs_vand instances plus 66000 further users of the shared tables (thorough: real instances), then create / destroy / use",
    "C15": "; lists holding a sealed fragment of another layout of the same object (smaller k, larger payload), every fragment end-pinned against a guard page: no read behind fragment_len",
    "C16": "; every other encode of a history edits the returned fragments in place (magic cleared, fragment overwritten) before cleanup; re-sealed edits go to the lowest listed index half of the time and edited fragments are handed in misaligned every other time; allocation-failure enumeration also over encode with output variables still holding blocks of the caller and over P-xor-Q reconstructs",
    "C17": "; scripts lose as much as the code tolerates (pool has (4,28), (1,31), (2,30)) and decode with forced checks while a payload-damaged fragment is in the list",
    "C18": "; probe mode (ASan): one thread's creates fail in the backend's init while another calls encode and size queries with the descriptor numbers handed out next - never accepted",
    "C19": _POP + " (ISA-L shapes)",
    "C20": "; out-of-range indexes with high bits set (own index | 2^31, + 2^8, + 2^16, near 2^31 and 2^32)",
}
for _p, _t in _ADDED.items():
    PROPS[_p]["rule"] += _t
