#!/usr/bin/env python3
"""Reach report (never a verdict): run every property's quick (or thorough) workload on a
gcov-instrumented build of /repo's working tree and list, per library source file, the line
coverage and the lines no monitor's workload executed.  Used to find parts of the behaviour
behind a property that the workloads do not drive yet.

usage: reach.py [--tier quick] [--props C01,C02] [--out DIR]
Writes <out>/reach.json and <out>/unreached.txt (default out: /verif/_work/reach).
"""
import os, sys, json, re, shutil, subprocess, glob
from concurrent.futures import ThreadPoolExecutor

HERE = os.path.dirname(os.path.abspath(__file__))
VERIF = os.path.dirname(HERE)
sys.path.insert(0, HERE)
import build as B
import check as C
from props import PROPS, DRIVER_SOURCES


def main():
    tier, props, out = "quick", sorted(PROPS), os.path.join(VERIF, "_work", "reach")
    a = sys.argv[1:]
    for i, x in enumerate(a):
        if x == "--tier": tier = a[i + 1]
        if x == "--props": props = a[i + 1].split(",")
        if x == "--out": out = a[i + 1]
    shutil.rmtree(out, ignore_errors=True)
    os.makedirs(out)
    work = os.path.join(out, "w")
    os.makedirs(work)
    libdir = B.build_lib("cov", work)
    B.build_isal_ref("cov", work)
    B.build_shss_ref("cov", work)
    B.build_jer_ref("cov", work)
    B.build_phazr_ref("cov", work)
    drivers = sorted({r["driver"] for p in props for r in PROPS[p]["runs"] + PROPS[p].get("extra_runs", [])})
    bins = {}
    for d in drivers:
        srcs = [os.path.join(VERIF, s) for s in DRIVER_SOURCES[d]["src"]]
        bins[d] = B.build_driver("cov", work, d, srcs, extra_cflags=list(DRIVER_SOURCES[d].get("cflags", [])))
    jobs = []
    seen = set()
    for p in props:
        spec = PROPS[p]
        for ri, r in enumerate(spec["runs"] + spec.get("extra_runs", [])):
            sig = (p, r["driver"], tuple(r.get("args", [])))
            if sig in seen:
                continue
            seen.add(sig)
            shards = r.get("shards", 16)
            for sh in range(shards):
                args = ["--prop", p, "--tier", tier, "--seed", "1", "--shard", "%d/%d" % (sh, shards)] + [str(x) for x in r.get("args", [])]
                tag = "%s_r%d_s%d" % (p, ri, sh)
                jobs.append((bins[r["driver"]], args, tag))

    env = C.san_env("plain", libdir, False, work, "reach")

    def go(j):
        binp, args, tag = j
        logp = os.path.join(work, tag + ".log")
        cmd = [binp] + args + ["--log", logp, "--dist", os.path.join(work, tag + ".dist"), "--start", "0"]
        try:
            p = subprocess.run(cmd, env=env, stdout=subprocess.DEVNULL, stderr=subprocess.DEVNULL, timeout=3600)
            return tag, p.returncode
        except subprocess.TimeoutExpired:
            return tag, -9
    with ThreadPoolExecutor(max_workers=16) as ex:
        rcs = list(ex.map(go, jobs))
    bad = [t for t, rc in rcs if rc not in (0,)]
    # gcov
    objdir = os.path.join(work, "cov", "obj")
    gdir = os.path.join(out, "gcov")
    os.makedirs(gdir)
    report = {}
    for gcno in sorted(glob.glob(os.path.join(objdir, "*.gcno"))):
        p = subprocess.run(["gcov", "-b", "-o", objdir, gcno], cwd=gdir, stdout=subprocess.PIPE, stderr=subprocess.STDOUT, text=True)
    unre = open(os.path.join(out, "unreached.txt"), "w")
    for g in sorted(glob.glob(os.path.join(gdir, "*.gcov"))):
        lines = open(g, errors="replace").read().split("\n")
        src = None
        m = re.match(r"\s*-:\s*0:Source:(.*)", lines[0])
        if m: src = m.group(1)
        if not src or "/src/" not in src and "/include/" not in src:
            continue
        rel = src.split("/repo/")[-1] if "/repo/" in src else src
        ex = nx = 0
        miss = []
        for ln in lines:
            mm = re.match(r"\s*([^:]+):\s*(\d+):(.*)", ln)
            if not mm: continue
            cnt, no, txt = mm.group(1).strip(), int(mm.group(2)), mm.group(3)
            if cnt == "-" or no == 0: continue
            if cnt.startswith("#") or cnt.startswith("="):
                nx += 1; miss.append((no, txt))
            else:
                ex += 1
        key = rel + "|" + os.path.basename(g)
        report[key] = {"executed": ex, "not_executed": nx}
        if miss:
            unre.write("=== %s (%d/%d lines executed)\n" % (rel, ex, ex + nx))
            for no, txt in miss:
                unre.write("%5d: %s\n" % (no, txt))
    unre.close()
    json.dump({"tier": tier, "props": props, "driver_nonzero_exits": bad, "files": report}, open(os.path.join(out, "reach.json"), "w"), indent=1)
    for k, v in sorted(report.items()):
        print("%-90s %5d / %5d" % (k, v["executed"], v["executed"] + v["not_executed"]))
    print("non-zero driver exits:", bad[:10])
    shutil.rmtree(work, ignore_errors=True)


if __name__ == "__main__":
    main()
