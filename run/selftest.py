#!/usr/bin/env python3
"""Self-test of the monitors: apply each property-breaking patch (mutants/*.patch,
seeded/<id>/patch.diff) to a scratch git worktree of /repo (outside /repo and
/verif, removed afterwards), run the owning check(s) against that worktree and
require exit 1 with a VIOLATION line; optionally run every check on the
unchanged tree for several seeds and require silence.

usage: selftest.py mutants [name-substring ...]     # all or selected mutants
       selftest.py silence [--seeds 1,2,3] [IDs...]  # unchanged tree, several seeds
Results are appended to mutants/RESULTS.json (mutant -> check -> detected).
"""
import os, sys, json, subprocess, shutil, time, glob

HERE = os.path.dirname(os.path.abspath(__file__))
VERIF = os.path.dirname(HERE)
REPO = "/repo"
SCRATCH = "/tmp/verif_selftest_%d" % os.getpid()      # per process: two self-tests may run at the same time


def sh(cmd, **kw):
    return subprocess.run(cmd, stdout=subprocess.PIPE, stderr=subprocess.STDOUT, text=True, **kw)


def load_index():
    idx = json.load(open(os.path.join(VERIF, "mutants", "index.json")))
    out = []
    for m in idx["mutants"]:
        out.append({"name": m["patch"][:-6] if m["patch"].endswith(".patch") else m["patch"],
                    "patch": os.path.join(VERIF, "mutants", m["patch"]), "checks": m["checks"], "note": m.get("note", "")})
    for meta in sorted(glob.glob(os.path.join(VERIF, "seeded", "*", "meta.json"))):
        d = json.load(open(meta))
        out.append({"name": "seeded/" + os.path.basename(os.path.dirname(meta)),
                    "patch": os.path.join(os.path.dirname(meta), "patch.diff"),
                    "checks": d.get("checks", [d.get("property")]), "note": d.get("needs", "")})
    return out


def run_check_on(tree, prop, seed=1, tier="quick"):
    env = dict(os.environ)
    env.update({"VERIF_REPO": tree, "VERIF_EVIDENCE_DIR": os.path.join(SCRATCH, "evidence"),
                "VERIF_REPLAY_DIR": os.path.join(SCRATCH, "replays"), "VERIF_WORK_DIR": os.path.join(SCRATCH, "work"),
                "VERIF_SEED": str(seed), "VERIF_TIER": tier})
    t = time.time()
    p = sh([sys.executable, os.path.join(HERE, "check.py"), prop], env=env)
    viol = [l for l in p.stdout.splitlines() if l.startswith("VIOLATION")]
    keys = [l.strip()[5:] for l in p.stdout.splitlines() if l.strip().startswith("key: ")]
    return p.returncode, viol, keys, time.time() - t, p.stdout


def mutants(filters):
    os.makedirs(SCRATCH, exist_ok=True)
    res_path = os.path.join(VERIF, "mutants", "RESULTS.json")
    try:
        results = json.load(open(res_path))
    except (OSError, ValueError):
        results = {}
    ok_all = True
    for m in load_index():
        if filters and not any(f in m["name"] for f in filters):
            continue
        wt = os.path.join(SCRATCH, "wt_" + m["name"].replace("/", "_")[:60])
        sh(["git", "-C", REPO, "worktree", "remove", "--force", wt])
        shutil.rmtree(wt, ignore_errors=True)
        r = sh(["git", "-C", REPO, "worktree", "add", "--detach", wt, "HEAD"])
        if r.returncode != 0:
            print("cannot create worktree:", r.stdout)
            return 2
        try:
            a = sh(["git", "-C", wt, "apply", "--3way", m["patch"]])
            if a.returncode != 0:
                a = sh(["git", "-C", wt, "apply", m["patch"]])
            if a.returncode != 0:
                print("MUTANT %-70s PATCH DOES NOT APPLY: %s" % (m["name"], a.stdout.strip()[:200]))
                results[m["name"]] = {"applies": False}
                ok_all = False
                continue
            entry = {"applies": True, "checks": {}}
            for prop in m["checks"]:
                rc, viol, keys, dt, out = run_check_on(wt, prop)
                det = rc == 1 and len(viol) > 0
                entry["checks"][prop] = {"detected": det, "rc": rc, "violation_lines": len(viol), "first_key": keys[0] if keys else "", "wall_s": round(dt, 1)}
                print("MUTANT %-70s %s %-9s rc=%d lines=%d %.0fs  %s" % (m["name"][:70], prop, "DETECTED" if det else "MISSED", rc, len(viol), dt, (keys[0] if keys else "")[:110]))
                if not det:
                    ok_all = False
                    open(os.path.join(SCRATCH, "missed_%s_%s.log" % (m["name"].replace("/", "_")[:40], prop)), "w").write(out)
            results[m["name"]] = entry
        finally:
            sh(["git", "-C", REPO, "worktree", "remove", "--force", wt])
            shutil.rmtree(wt, ignore_errors=True)
        json.dump(results, open(res_path, "w"), indent=1, sort_keys=True)
    shutil.rmtree(os.path.join(SCRATCH, "work"), ignore_errors=True)
    if ok_all:
        shutil.rmtree(SCRATCH, ignore_errors=True)
    else:
        print("logs of missed changes kept under", SCRATCH)
    return 0 if ok_all else 1


def silence(args):
    seeds = [1, 2, 3]
    ids = []
    i = 0
    while i < len(args):
        if args[i] == "--seeds":
            seeds = [int(x) for x in args[i + 1].split(",")]; i += 1
        else:
            ids.append(args[i])
        i += 1
    sys.path.insert(0, HERE)
    from props import PROPS
    if not ids:
        ids = sorted(PROPS)
    bad = 0
    for prop in ids:
        for sd in seeds:
            rc, viol, keys, dt, out = run_check_on(REPO, prop, seed=sd)
            print("SILENCE %s seed=%d rc=%d violation_lines=%d %.0fs" % (prop, sd, rc, len(viol), dt))
            if rc != 0 or viol:
                bad += 1
                open(os.path.join(SCRATCH, "alarm_%s_%d.log" % (prop, sd)), "w").write(out)
    return 1 if bad else 0


if __name__ == "__main__":
    if len(sys.argv) < 2:
        print(__doc__); sys.exit(2)
    os.makedirs(SCRATCH, exist_ok=True)
    if sys.argv[1] == "mutants":
        sys.exit(mutants(sys.argv[2:]))
    if sys.argv[1] == "silence":
        sys.exit(silence(sys.argv[2:]))
    print(__doc__); sys.exit(2)
