#!/usr/bin/env python3
"""MANIFEST.setup_cmd: offline set-up.  Nothing is downloaded; this compiles and
runs the self-test of the reference models (KATs produced by the independent
Python implementation in kat/, the two in-the-wild golden headers, zlib's crc32)
and checks that the compilers the checks need are present."""
import os, subprocess, sys, shutil, tempfile
VERIF = os.path.dirname(os.path.dirname(os.path.abspath(__file__)))
def main():
    for tool in ("gcc", "clang-14", "python3"):
        if not shutil.which(tool):
            print("setup: missing tool", tool); return 1
    work = os.path.join(VERIF, "_work", "setup_%d" % os.getpid())
    os.makedirs(work, exist_ok=True)
    try:
        exe = os.path.join(work, "ref_selftest")
        subprocess.check_call(["gcc", "-std=gnu11", "-O1", "-g", "-fsanitize=address,undefined", "-fno-sanitize-recover=all",
                               "-o", exe, os.path.join(VERIF, "ref", "selftest.c"), os.path.join(VERIF, "ref", "ref.c"), "-lz"])
        subprocess.check_call([exe])
        # the frozen KAT header must be what the generator produces (guards against a stale file)
        out = subprocess.check_output([sys.executable, os.path.join(VERIF, "kat", "gen_kat.py")], text=True)
        if out != open(os.path.join(VERIF, "kat", "kat_vectors.h")).read():
            print("setup: kat/kat_vectors.h is not what kat/gen_kat.py generates"); return 1
        print("setup ok")
        return 0
    finally:
        shutil.rmtree(work, ignore_errors=True)
        try: os.rmdir(os.path.join(VERIF, "_work"))
        except OSError: pass
if __name__ == "__main__":
    sys.exit(main())
