/* Stand-in libshss.so.1 for the verification harness (verif-owned; NOT the NTT product).
 *
 * liberasurecode's shss adapter needs three entry points.  This library implements them as a
 * systematic GF(2^8) Cauchy code (the same generator as ISA-L's gf_gen_cauchy1_matrix, so the
 * harness' GF(2^8) model predicts every byte) and - like the real library - owns a 32-byte trailer
 * behind every fragment payload ("backend metadata"): bytes blocksize .. blocksize+31 of each
 * buffer, here a fixed pattern of the fragment index.  What matters to the properties is the
 * front end's handling of a backend with non-zero per-fragment metadata and forced decode.
 *
 *   int ssencode(char **bufs, size_t blocksize, int k, int m, int priv, int chksum, long long *einfo)
 *   int ssdecode(char **bufs, size_t blocksize, int *missing, int nmissing, int k, int m, int priv, int chksum, long long *einfo)
 *   int ssreconst(char **bufs, size_t blocksize, int *dst, int ndst, int *missing, int nmissing, int k, int m, int priv, int chksum, long long *einfo)
 * return 0 on success, a positive error number otherwise (the adapter negates it).
 */
#include <string.h>
#include <stdlib.h>
#include <stddef.h>

#define TRAILER 32
long shss_ref_encode_calls, shss_ref_decode_calls, shss_ref_reconst_calls;

static unsigned char mul(unsigned char a, unsigned char b)
{
    unsigned r = 0, x = a, y = b;
    while (y) { if (y & 1) r ^= x; y >>= 1; x <<= 1; if (x & 0x100) x ^= 0x11d; }
    return (unsigned char)r;
}
static unsigned char inv(unsigned char a)
{
    unsigned char r = 1;            /* a^254 */
    for (int i = 0; i < 254; i++) r = mul(r, a);
    return r;
}
/* generator row r (0..k+m-1), column j (0..k-1): identity on top, 1/(r ^ j) below */
static unsigned char gen(int k, int r, int j) { return r < k ? (unsigned char)(r == j) : inv((unsigned char)(r ^ j)); }

static void trailer(char *buf, size_t blocksize, int idx)
{
    for (int b = 0; b < TRAILER; b++) buf[blocksize + (size_t)b] = (char)(0x5A ^ (idx * 7) ^ b);
}

int ssencode(char **bufs, size_t blocksize, int k, int m, int priv, int chksum, long long *einfo)
{
    (void)priv; (void)chksum; if (einfo) *einfo = 0;
    __atomic_fetch_add(&shss_ref_encode_calls, 1, __ATOMIC_RELAXED);   /* monitor state: must not look like a race of the code under test */
    if (!bufs || k < 1 || m < 0 || k + m > 255) return 1;
    for (int p = 0; p < m; p++) {
        unsigned char *out = (unsigned char *)bufs[k + p];
        memset(out, 0, blocksize);
        for (int j = 0; j < k; j++) {
            unsigned char c = gen(k, k + p, j);
            const unsigned char *d = (const unsigned char *)bufs[j];
            for (size_t b = 0; b < blocksize; b++) out[b] ^= mul(c, d[b]);
        }
    }
    for (int i = 0; i < k + m; i++) trailer(bufs[i], blocksize, i);
    return 0;
}

/* recover all data payloads from any k available rows (Gaussian elimination over GF(2^8)) */
static int recover_data(char **bufs, size_t blocksize, const int *missing, int nmissing, int k, int m, unsigned char **tmpdata)
{
    int n = k + m, avail[256], na = 0;
    unsigned char is_missing[256]; memset(is_missing, 0, sizeof is_missing);
    for (int i = 0; i < nmissing; i++) if (missing[i] >= 0 && missing[i] < n) is_missing[missing[i]] = 1;
    for (int i = 0; i < n && na < k; i++) if (!is_missing[i]) avail[na++] = i;
    if (na < k) return 2;
    unsigned char *A = malloc((size_t)k * (size_t)k), *I = malloc((size_t)k * (size_t)k);
    if (!A || !I) { free(A); free(I); return 3; }
    for (int r = 0; r < k; r++) for (int j = 0; j < k; j++) { A[r * k + j] = gen(k, avail[r], j); I[r * k + j] = (unsigned char)(r == j); }
    for (int c = 0; c < k; c++) {
        int p = -1; for (int r = c; r < k; r++) if (A[r * k + c]) { p = r; break; }
        if (p < 0) { free(A); free(I); return 4; }
        if (p != c) for (int j = 0; j < k; j++) { unsigned char t = A[c * k + j]; A[c * k + j] = A[p * k + j]; A[p * k + j] = t; t = I[c * k + j]; I[c * k + j] = I[p * k + j]; I[p * k + j] = t; }
        unsigned char iv = inv(A[c * k + c]);
        for (int j = 0; j < k; j++) { A[c * k + j] = mul(A[c * k + j], iv); I[c * k + j] = mul(I[c * k + j], iv); }
        for (int r = 0; r < k; r++) if (r != c && A[r * k + c]) { unsigned char f = A[r * k + c]; for (int j = 0; j < k; j++) { A[r * k + j] ^= mul(f, A[c * k + j]); I[r * k + j] ^= mul(f, I[c * k + j]); } }
    }
    /* data_j = sum_r I[j][r] * frag[avail[r]] */
    for (int j = 0; j < k; j++) {
        if (!is_missing[j]) { tmpdata[j] = (unsigned char *)bufs[j]; continue; }
        unsigned char *out = tmpdata[j];
        memset(out, 0, blocksize);
        for (int r = 0; r < k; r++) { unsigned char c = I[j * k + r]; if (!c) continue; const unsigned char *s = (const unsigned char *)bufs[avail[r]]; for (size_t b = 0; b < blocksize; b++) out[b] ^= mul(c, s[b]); }
    }
    free(A); free(I);
    return 0;
}

static int rebuild(char **bufs, size_t blocksize, const int *want, int nwant, const int *missing, int nmissing, int k, int m)
{
    int n = k + m;
    unsigned char *tmpdata[256]; unsigned char *owned[256]; memset(owned, 0, sizeof owned);
    unsigned char is_missing[256]; memset(is_missing, 0, sizeof is_missing);
    for (int i = 0; i < nmissing; i++) if (missing[i] >= 0 && missing[i] < n) is_missing[missing[i]] = 1;
    for (int j = 0; j < k; j++) { tmpdata[j] = NULL; if (is_missing[j]) { owned[j] = malloc(blocksize ? blocksize : 1); if (!owned[j]) { for (int q = 0; q < j; q++) free(owned[q]); return 3; } tmpdata[j] = owned[j]; } }
    int rc = recover_data(bufs, blocksize, missing, nmissing, k, m, tmpdata);
    if (rc == 0) {
        for (int w = 0; w < nwant; w++) {
            int d = want[w];
            if (d < 0 || d >= n) { rc = 5; break; }
            unsigned char *out = (unsigned char *)bufs[d];
            if (d < k) { if (tmpdata[d] != out) memcpy(out, tmpdata[d], blocksize); }
            else {
                memset(out, 0, blocksize);
                for (int j = 0; j < k; j++) { unsigned char c = gen(k, d, j); const unsigned char *s = tmpdata[j]; for (size_t b = 0; b < blocksize; b++) out[b] ^= mul(c, s[b]); }
            }
            trailer(bufs[d], blocksize, d);
        }
    }
    for (int j = 0; j < k; j++) free(owned[j]);
    return rc;
}

int ssdecode(char **bufs, size_t blocksize, int *missing, int nmissing, int k, int m, int priv, int chksum, long long *einfo)
{
    (void)priv; (void)chksum; if (einfo) *einfo = 0;
    __atomic_fetch_add(&shss_ref_decode_calls, 1, __ATOMIC_RELAXED);
    if (!bufs || k < 1 || m < 0 || k + m > 255 || nmissing < 0) return 1;
    if (nmissing > m) return 2;
    return rebuild(bufs, blocksize, missing, nmissing, missing, nmissing, k, m);
}

int ssreconst(char **bufs, size_t blocksize, int *dst, int ndst, int *missing, int nmissing, int k, int m, int priv, int chksum, long long *einfo)
{
    (void)priv; (void)chksum; if (einfo) *einfo = 0;
    __atomic_fetch_add(&shss_ref_reconst_calls, 1, __ATOMIC_RELAXED);
    if (!bufs || !dst || k < 1 || m < 0 || k + m > 255 || nmissing < 0 || ndst < 0) return 1;
    if (nmissing > m) return 2;
    return rebuild(bufs, blocksize, dst, ndst, missing, nmissing, k, m);
}
